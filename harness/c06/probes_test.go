//go:build go1.25

package c06

import (
	"fmt"
	"sync"
	"sync/atomic"
	"testing"
	"time"

	"github.com/0xReLogic/Helios/verifharness/lab"
	"pgregory.net/rapid"
)

// Affinity beside Helios's own active health checks. The balancer is configured the way the shipped
// helios.yaml configures it: health_checks.active enabled. Every interval Helios's prober asks every
// backend that is not ejected for its health; all backends answer 200, so every probe only confirms
// what is known already: no backend changes health, ejected backends stay ejected (their window is an
// hour, the prober leaves them alone), the set of eligible backends is the same from the first request
// to the last. By the statement every client then stays on one backend - "regardless of concurrent
// traffic", and all the more regardless of the balancer's own housekeeping.
//
// Time is virtual (rapid.SyncTest), the prober is Helios's own goroutine on Helios's own ticker. The
// clients run on goroutines of their own and send their requests in bursts at drawn distances from the
// probe ticks - on the tick itself (the goroutines then run side by side with the prober's, on real
// threads), shortly after it, between two ticks. Read-only admin / monitoring calls (sub-check affinity)
// are made by further goroutines on the same time grid.

// probeOffsets: where, relative to a probe tick, a burst of requests starts (fractions of the interval are
// resolved against the drawn interval). Most of the weight is on and right behind the tick.
var probeOffsets = []string{"on-tick", "on-tick", "on-tick", "1ns-after", "1us-after", "20us-after", "1ms-after", "mid-interval", "1ns-before-next"}

func offsetDuration(off string, interval time.Duration) time.Duration {
	switch off {
	case "1ns-after":
		return time.Nanosecond
	case "1us-after":
		return time.Microsecond
	case "20us-after":
		return 20 * time.Microsecond
	case "1ms-after":
		return time.Millisecond
	case "mid-interval":
		return interval / 2
	case "1ns-before-next":
		return interval - time.Nanosecond
	}
	return 0
}

type probeWorker struct {
	Offsets []string `json:"offsets"` // one per tick
	Order   []int    `json:"order,omitempty"`
	Looks   []string `json:"looks,omitempty"`
	looks   []int
}

func TestC06AffinityBesideProbes(t *testing.T) {
	sub := lab.Sub("affinity-beside-probes", "rapid, virtual time, Helios's own active health checker running (health_checks.active: interval 2|5|10|30 s, timeout below it, path drawn; passive checks on in half "+
		"of the cases as in the shipped helios.yaml; every backend answers every probe with 200, so no probe changes anybody's health): strategy in {ip_hash, ip_hash_consistent}, pool 1..12 named by a drawn scheme, "+
		"a stable ejected subset (1 h windows), 2..16 clients with 1..3 request variants each; after the start-up probes every client's backend is recorded by one sequential pass; then 2..8 probe ticks go by "+
		"while G in {1,2,4,8} client goroutines send all variants of all clients (1..4 rounds, own drawn order) in a burst per tick that starts on the tick, 1 ns / 1 us / 20 us / 1 ms after it, in the middle of the "+
		"interval or 1 ns before the next tick, through lb.NextBackend or lb.ServeHTTP(L1); 0..2 further goroutines make read-only admin / monitoring calls on the same grid; "+
		"oracle: every request of a client reaches the backend recorded for that client, every choice is an eligible member, and at the end every backend's health is what it was (else the case is a harness problem); "+
		"non-trivial = >=2 eligible backends, every eligible backend was probed at least twice after the recording, and some burst started on a tick")
	sub.NontrivialFloor(0.5)
	sub.Floor("burst-on-tick", 0.8)
	sub.Floor("ejected-present", 0.2)
	lab.Assume("affinity-beside-probes: http.DefaultTransport (through which Helios's prober sends) is scripted; goroutines woken at one virtual instant run on real threads, their interleaving is sampled, not enumerated")
	lab.Check(t, sub, 200, 8000, func(rt *rapid.T) {
		strategy := rapid.SampledFrom(hashStrategies).Draw(rt, "strategy")
		via := rapid.SampledFrom([]string{"next", "next", "serve"}).Draw(rt, "via")
		n := rapid.SampledFrom([]int{1, 2, 2, 3, 3, 4, 5, 6, 8, 10, 11, 12}).Draw(rt, "n")
		o := poolOpts{Naming: genNaming(rt)}
		o.ProbeInterval = rapid.SampledFrom([]int{2, 5, 10, 30}).Draw(rt, "interval")
		o.ProbeTimeout = rapid.IntRange(1, o.ProbeInterval-1).Draw(rt, "timeout")
		o.ProbePath = rapid.SampledFrom([]string{"/", "/health", "/healthz"}).Draw(rt, "path")
		passive := rapid.Bool().Draw(rt, "passive")
		o.Passive = passive
		var eject []int
		if n >= 2 && rapid.IntRange(0, 2).Draw(rt, "withEjected") == 0 {
			idx := make([]int, n)
			for i := range idx {
				idx[i] = i
			}
			eject = rapid.Permutation(idx).Draw(rt, "which")[:rapid.IntRange(1, min(n-1, 4)).Draw(rt, "ejected")]
		}
		nc := rapid.IntRange(2, 16).Draw(rt, "clients")
		type item struct {
			client int
			spec   reqSpec
		}
		var items []item
		var addrs []string
		for c := 0; c < nc; c++ {
			a, _ := genAddr(rt, "client")
			addrs = append(addrs, a)
			for v, m := 0, rapid.IntRange(1, 3).Draw(rt, "variants"); v < m; v++ {
				s, _ := genRequestFor(rt, a)
				items = append(items, item{c, s})
			}
		}
		idx := make([]int, len(items))
		for i := range idx {
			idx[i] = i
		}
		ticks := rapid.SampledFrom([]int{2, 3, 4, 6, 8}).Draw(rt, "ticks")
		G := rapid.SampledFrom([]int{1, 2, 4, 8}).Draw(rt, "G")
		rounds := rapid.SampledFrom([]int{1, 2, 4}).Draw(rt, "rounds")
		if via == "serve" {
			rounds = min(rounds, 2)
		}
		drawOffsets := func() []string {
			return rapid.SliceOfN(rapid.SampledFrom(probeOffsets), ticks, ticks).Draw(rt, "offsets")
		}
		var workers []probeWorker
		onTick := false
		for g := 0; g < G; g++ {
			w := probeWorker{Offsets: drawOffsets(), Order: rapid.Permutation(idx).Draw(rt, "order")}
			for _, off := range w.Offsets {
				onTick = onTick || off == "on-tick"
			}
			workers = append(workers, w)
		}
		for b, m := 0, rapid.SampledFrom([]int{0, 0, 1, 2}).Draw(rt, "lookers"); b < m; b++ {
			w := probeWorker{Offsets: drawOffsets(), looks: rapid.SliceOfN(rapid.SampledFrom(observerTable), 1, 6).Draw(rt, "looks")}
			w.Looks = observerList(w.looks)
			workers = append(workers, w)
		}
		interval := time.Duration(o.ProbeInterval) * time.Second

		var viol, problem string
		var members, ejected []string
		minProbes := 0
		home := make([]string, nc)
		rapid.SyncTest(rt, func(rt *rapid.T) {
			o.fn = lab.NewFakeNet()
			o.fn.WithDefaultTransport(func() {
				p, err := newPoolWith(strategy, n, o)
				if err != nil {
					problem = err.Error()
					return
				}
				defer p.lb.Stop()
				t0 := time.Now() // Helios's probe ticker was started at this (virtual) instant
				for _, i := range eject {
					p.eject(p.names[i])
				}
				members, ejected = append([]string(nil), p.names...), keysOf(p.ejected)
				skip := map[string]bool{}
				for k := range p.ejected {
					skip[k] = true
				}
				p.adminMux()
				time.Sleep(time.Millisecond) // the start-up probes have been answered and processed
				for _, it := range items {
					name, _ := p.pick(it.spec, via)
					if v := p.valid(name); v != "" {
						viol = fmt.Sprintf("request %+v (before the first probe tick): %s", it.spec, v)
						return
					}
					if home[it.client] == "" {
						home[it.client] = name
					} else if home[it.client] != name {
						viol = fmt.Sprintf("client %q: two requests went to %s and %s (sequential, before the first probe tick), the second is %+v", addrs[it.client], home[it.client], name, it.spec)
						return
					}
				}
				probed0 := map[string]int{}
				for h := range p.hostName {
					probed0[h] = o.fn.Probes(h)
				}
				viols := make([]string, len(workers))
				var stop int32
				var wg sync.WaitGroup
				for g, w := range workers {
					wg.Add(1)
					go func(g int, w probeWorker) {
						defer wg.Done()
						for k, off := range w.Offsets {
							time.Sleep(time.Until(t0.Add(time.Duration(k+1)*interval + offsetDuration(off, interval))))
							if atomic.LoadInt32(&stop) != 0 {
								return
							}
							for _, kind := range w.looks {
								p.observe(kind, skip)
							}
							if w.Order == nil {
								continue
							}
							for r := 0; r < rounds; r++ {
								for _, i := range w.Order {
									name, _ := p.pick(items[i].spec, via)
									if name == home[items[i].client] {
										continue
									}
									what := "went to " + name
									if v := p.valid(name); v != "" {
										what = v
									}
									viols[g] = fmt.Sprintf("client %q is on %s (recorded after the start-up probes); a request of it sent %s of probe tick #%d (burst of client goroutine %d of %d) %s - although no backend changed health: "+
										"all probes are answered 200, nothing was ejected, re-admitted, added or removed since the recording; the request: %+v", addrs[items[i].client], home[items[i].client], off, k+1, g, G, what, items[i].spec)
									atomic.StoreInt32(&stop, 1)
									return
								}
							}
						}
					}(g, w)
				}
				wg.Wait()
				time.Sleep(time.Millisecond) // the probes of the last tick have been answered and processed
				for _, v := range viols {
					if v != "" && viol == "" {
						viol = v
					}
				}
				// nobody's health may have changed (all probes pass): otherwise the case does not test the statement
				for _, info := range p.lb.ListBackends() {
					if info.Healthy == p.ejected[info.Name] {
						problem = fmt.Sprintf("backend %s: healthy=%v at the end of the case, ejected by the harness: %v", info.Name, info.Healthy, p.ejected[info.Name])
					}
				}
				minProbes = -1
				for h, name := range p.hostName {
					if p.ejected[name] {
						continue
					}
					if d := o.fn.Probes(h) - probed0[h]; minProbes < 0 || d < minProbes {
						minProbes = d
					}
				}
			})
		})
		nEligible := n - len(eject)
		labels := []string{strategy, "via-" + via, fmt.Sprintf("G%d", G), fmt.Sprintf("interval-%ds", o.ProbeInterval), "names-" + o.Naming.Scheme}
		if onTick {
			labels = append(labels, "burst-on-tick")
		}
		if len(eject) > 0 {
			labels = append(labels, "ejected-present")
		}
		if len(workers) > G {
			labels = append(labels, "observers-beside-clients")
		}
		if passive {
			labels = append(labels, "passive-checks-on")
		}
		sub.Case(map[string]any{"strategy": strategy, "n": n, "opts": o, "ejected": ejected, "clients": addrs, "requests": len(items), "ticks": ticks, "G": G, "rounds": rounds,
			"workers": workers, "via": via}, nEligible >= 2 && onTick && (minProbes >= 2 || viol != ""), labels...)
		if problem != "" && viol == "" {
			rt.Fatalf("harness: %s", problem)
		}
		if viol != "" {
			rt.Fatalf("%s", note("affinity-beside-probes", "%s n=%d via=%s, active health checks every %ds, members %v, ejected %v: %s", strategy, n, via, o.ProbeInterval, members, ejected, viol))
		}
	})
}
