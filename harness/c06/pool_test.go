package c06

import (
	"fmt"
	"net"
	"net/http"
	"net/http/httptest"
	"runtime"
	"sort"
	"strings"
	"sync"
	"time"

	"github.com/0xReLogic/Helios/internal/adminapi"
	"github.com/0xReLogic/Helios/internal/config"
	"github.com/0xReLogic/Helios/internal/loadbalancer"
	"github.com/0xReLogic/Helios/verifharness/lab"
)

var hashStrategies = []string{"ip_hash", "ip_hash_consistent"}

// every strategy name the admin API's POST /v1/strategy accepts (lb.SetStrategy)
var allStrategies = []string{"round_robin", "least_connections", "weighted_round_robin", "ip_hash", "ip_hash_consistent"}

// setStrategy is the operator's strategy (re)selection: what POST /v1/strategy does. It leaves the
// members and their ejection windows as they are, so the eligible set is the same before and after.
func (p *pool) setStrategy(name string) error {
	return p.lb.SetStrategy(name)
}

// awayStrategies are the names other than the given one.
func awayStrategies(name string) []string {
	var out []string
	for _, s := range allStrategies {
		if s != name {
			out = append(out, s)
		}
	}
	return out
}

// pool drives one real LoadBalancer (ip_hash / ip_hash_consistent) through its exported API and
// the L1 fake network; membership and ejections are tracked on the harness side.
type pool struct {
	lb      *loadbalancer.LoadBalancer
	fn      *lab.FakeNet
	nextID  int
	names   []string
	ejected map[string]bool

	naming    naming
	hostName  map[string]string // scripted host -> the name the operator gave that backend
	cfg       *config.Config
	adminOnce sync.Once
	admin     http.Handler
}

// ---------------------------------------------------------------------------------------------
// Backend names. The statement's clauses are about which backend a client is sent to; what the
// operator called the backends, and whether the order in which they joined the pool happens to be
// the byte-wise order of those names, is irrelevant to every one of them. Pools are therefore named
// by a drawn scheme; in most of them arrival order and name order differ (web-1 .. web-9 then
// web-10; a count-down; tiers; addresses; free names in a drawn order).
// ---------------------------------------------------------------------------------------------

type naming struct {
	Scheme string   `json:"scheme,omitempty"`
	Words  []string `json:"words,omitempty"` // scheme "drawn": the vocabulary in its drawn order
}

var namingSchemes = []string{"b0", "web-1", "padded", "countdown", "host:port", "tiers", "drawn", "drawn", "web-1"}

var nameVocabulary = []string{"alpha", "bravo", "Charlie", "delta", "echo", "Foxtrot", "golf", "hotel", "india", "Juliet", "kilo", "lima", "Z\u00fcrich", "east 1",
	"EU_west", "us-east-1a", "us-east-1b", "blue", "green", "canary", "primary", "replica.2", "app01", "app1", "app10", "APP2"}

func (nm naming) name(i int) string {
	switch nm.Scheme {
	case "web-1": // web-1 .. web-9, web-10, web-11: the scale-out classic ("web-10" < "web-2")
		return fmt.Sprintf("web-%d", i+1)
	case "padded": // srv-001, srv-002: arrival order IS name order (until something is removed)
		return fmt.Sprintf("srv-%03d", i+1)
	case "countdown": // node-500, node-499, ...
		return fmt.Sprintf("node-%d", 500-i)
	case "host:port": // named after their addresses
		return fmt.Sprintf("10.0.0.%d:8080", i+1)
	case "tiers": // web-1, api-1, DB-1, cache-1, Web-1, web-2, ...
		return fmt.Sprintf("%s-%d", []string{"web", "api", "DB", "cache", "Web"}[i%5], i/5+1)
	case "drawn":
		w := nm.Words[i%len(nm.Words)]
		if i >= len(nm.Words) {
			w += fmt.Sprintf("-%d", i/len(nm.Words)+1)
		}
		return w
	}
	return lab.BackendName(i) // b0, b1, ... ("b10" < "b2")
}

// unsorted: the pool's order (arrival order, as far as the harness knows it) is not the byte-wise
// order of the names.
func unsorted(names []string) bool { return !sort.StringsAreSorted(names) }

// unsortedNow: the order the pool is in right now (removals move the last backend into the gap) is not
// the byte-wise order of the names.
func (p *pool) unsortedNow() bool {
	var names []string
	for _, b := range p.lb.VerifBackends() {
		names = append(names, b.Name)
	}
	return unsorted(names)
}

// poolWeights: the statement's affinity and remapping clauses are about which backend a client address
// maps to and say nothing of weights, so they hold whatever weights the operator configured. Half of
// the pool sizes (per strategy) carry non-uniform weights - the shipped helios.yaml's 5/2/1, or 1/3.
func poolWeights(strategy string, n int) []int {
	ws := lab.Ones(n)
	switch (n + len(strategy)) % 4 {
	case 2:
		for i := range ws {
			ws[i] = []int{5, 2, 1}[i%3]
		}
	case 3:
		for i := range ws {
			ws[i] = []int{1, 3}[i%2]
		}
	}
	return ws
}

func newPool(strategy string, n int) (*pool, error) {
	return newPoolWith(strategy, n, poolOpts{})
}

// poolOpts: what else the operator configured. The zero value is the pool the older sub-checks use
// (names b0, b1, ..., no active health checks).
type poolOpts struct {
	Naming naming `json:"naming"`
	// Helios's own active health checks (health_checks.active): every interval seconds each backend
	// that is not ejected is probed; a probe that passes confirms "healthy" and changes nothing.
	// The caller must have scripted http.DefaultTransport (FakeNet.WithDefaultTransport) before.
	ProbeInterval int    `json:"probe_interval_s,omitempty"`
	ProbeTimeout  int    `json:"probe_timeout_s,omitempty"`
	ProbePath     string `json:"probe_path,omitempty"`
	Passive       bool   `json:"passive,omitempty"` // health_checks.passive as in the shipped helios.yaml (3 failures, 30 s)
	fn            *lab.FakeNet
}

func newPoolWith(strategy string, n int, o poolOpts) (*pool, error) {
	cfg := lab.BaseConfig(strategy, poolWeights(strategy, n))
	for i := range cfg.Backends {
		cfg.Backends[i].Name = o.Naming.name(i)
	}
	if o.ProbeInterval > 0 {
		cfg.HealthChecks.Active.Enabled = true
		cfg.HealthChecks.Active.Interval, cfg.HealthChecks.Active.Timeout, cfg.HealthChecks.Active.Path = o.ProbeInterval, o.ProbeTimeout, o.ProbePath
	}
	if o.Passive {
		cfg.HealthChecks.Passive.Enabled, cfg.HealthChecks.Passive.UnhealthyThreshold, cfg.HealthChecks.Passive.UnhealthyTimeout = true, 3, 30
	}
	fn := o.fn
	if fn == nil {
		fn = lab.NewFakeNet()
	}
	lb, err := loadbalancer.NewLoadBalancer(cfg)
	if err != nil {
		return nil, err
	}
	p := &pool{lb: lb, fn: fn, ejected: map[string]bool{}, nextID: n, naming: o.Naming, hostName: map[string]string{}, cfg: cfg}
	for i := 0; i < n; i++ {
		p.names = append(p.names, o.Naming.name(i))
		p.hostName[lab.BackendHost(i)] = o.Naming.name(i)
	}
	p.fn.Install(lb)
	return p, nil
}

// appendBackend adds one backend at the end of the pool (what the admin API's add does).
func (p *pool) appendBackend() (string, error) {
	name := p.naming.name(p.nextID)
	p.hostName[lab.BackendHost(p.nextID)] = name
	if err := p.lb.AddBackend(config.BackendConfig{Name: name, Address: "http://" + lab.BackendHost(p.nextID), Weight: 1 + p.nextID%3}); err != nil {
		return "", err
	}
	p.nextID++
	p.names = append(p.names, name)
	p.fn.Install(p.lb)
	return name, nil
}

func (p *pool) remove(name string) {
	p.lb.RemoveBackend(name)
	for i, n := range p.names {
		if n == name {
			p.names = append(p.names[:i:i], p.names[i+1:]...)
			break
		}
	}
	delete(p.ejected, name)
}

// eject takes a backend out for an hour of real time (far longer than any case runs), so the
// eligible set is stable and Helios's lazy health flag is unambiguous.
func (p *pool) eject(name string) {
	for _, b := range p.lb.VerifBackends() {
		if b.Name == name {
			p.lb.MarkBackendUnhealthy(b, time.Hour)
			p.ejected[name] = true
		}
	}
}

func (p *pool) isMember(name string) bool {
	for _, n := range p.names {
		if n == name {
			return true
		}
	}
	return false
}

// reqSpec is everything of a client request that the hash strategies could possibly look at.
type reqSpec struct {
	Method string            `json:"method"`
	Path   string            `json:"path"`
	XFF    []string          `json:"xff,omitempty"` // X-Forwarded-For header lines, in order
	XRI    string            `json:"xri,omitempty"`
	Remote string            `json:"remote"`
	Extra  map[string]string `json:"extra,omitempty"`
}

func (s reqSpec) build() *http.Request {
	m, path := s.Method, s.Path
	if m == "" {
		m = "GET"
	}
	if path == "" {
		path = "/"
	}
	req := lab.Request(m, path, s.Remote, s.Extra)
	if len(s.XFF) > 0 {
		req.Header["X-Forwarded-For"] = append([]string(nil), s.XFF...)
	}
	if s.XRI != "" {
		req.Header["X-Real-Ip"] = []string{s.XRI}
	}
	return req
}

// pick sends one request and returns the backend that got it ("" = none) and the status.
func (p *pool) pick(s reqSpec, via string) (string, int) {
	if via == "next" {
		b := p.lb.NextBackend(s.build())
		if b == nil {
			return "", 0
		}
		return b.Name, 0
	}
	st, _, hdr, _ := lab.Serve(p.lb, s.build())
	host := hdr.Get("X-Backend")
	if st != 200 || host == "" {
		return "", st
	}
	if name, ok := p.hostName[host]; ok {
		return name, st
	}
	return "unknown host " + host, st
}

// ---------------------------------------------------------------------------------------------
// Observers: what an operator, a dashboard or a monitoring job does on the same balancer while
// clients are being served. All of them only look: none adds, removes, ejects or re-admits anything,
// so the set of eligible backends is the same before and after, and by the statement every client
// stays where it is.
// ---------------------------------------------------------------------------------------------

var observerNames = []string{"admin GET /v1/health", "admin GET /v1/backends", "admin GET /v1/metrics", "MetricsHandler", "HealthHandler",
	"lb.ListBackends", "lb.IsBackendHealthy(members that are not ejected)", "GetMetrics", "admin GET on the POST-only endpoints (405)", "Backend.GetActiveConnections"}

// observerTable is what observer kinds are drawn from: the two listings somewhat more often than the rest.
var observerTable = []int{0, 1, 1, 2, 3, 4, 5, 5, 6, 7, 8, 9}

func isListing(kind int) bool { return kind == 1 || kind == 5 }

func (p *pool) adminMux() http.Handler {
	p.adminOnce.Do(func() { p.admin = adminapi.NewMux(p.lb, p.cfg, p.lb.GetMetricsCollector()) })
	return p.admin
}

// observe makes one read-only call. skip lists the backends that are inside an ejection window (for
// kind 6 only: asking about those could re-admit them once the window is over, which is not "only
// looking"); safe for concurrent use once adminMux() has been called.
func (p *pool) observe(kind int, skip map[string]bool) {
	get := func(h http.Handler, path string) {
		h.ServeHTTP(httptest.NewRecorder(), httptest.NewRequest("GET", "http://admin.test"+path, nil))
	}
	switch kind {
	case 0:
		get(p.adminMux(), "/v1/health")
	case 1:
		get(p.adminMux(), "/v1/backends")
	case 2:
		get(p.adminMux(), "/v1/metrics")
	case 3:
		get(p.lb.GetMetricsCollector().MetricsHandler(), "/metrics")
	case 4:
		get(p.lb.GetMetricsCollector().HealthHandler(), "/health")
	case 5:
		_ = p.lb.ListBackends()
	case 6:
		for _, b := range p.lb.VerifBackends() {
			if !skip[b.Name] {
				_ = p.lb.IsBackendHealthy(b)
			}
		}
	case 7:
		_ = p.lb.GetMetricsCollector().GetMetrics()
	case 8:
		for _, path := range []string{"/v1/backends/add", "/v1/backends/remove", "/v1/strategy"} {
			get(p.adminMux(), path)
		}
	case 9:
		for _, b := range p.lb.VerifBackends() {
			_ = b.GetActiveConnections()
		}
	}
}

func (p *pool) backend(name string) *loadbalancer.Backend {
	for _, b := range p.lb.VerifBackends() {
		if b.Name == name {
			return b
		}
	}
	return nil
}

// Somebody else is at a backend's state while a request is being routed. Backend.Mutex (exported) guards
// the backend's health fields; Helios's own prober takes it as a writer to confirm "healthy" after every
// passing probe, listings and other requests take it as readers. None of this changes anybody's health,
// so the eligible set is what it was and the request belongs to the same backend as before - the router
// may have to wait for the lock, it may not decide differently.
var lockHolds = []string{"reader", "writer", "writer-waiting-behind-reader"}

// pickContended sends one request while the lock of backend target is held in the given way. The hold ends
// once the request has returned or, when it waits for the lock (as it should), after a bounded number of
// scheduler yields; nothing is timed, and the result does not depend on how long the hold was.
func (p *pool) pickContended(s reqSpec, via, target, hold string) (string, int) {
	b := p.backend(target)
	if b == nil {
		return p.pick(s, via)
	}
	release := func() {}
	switch hold {
	case "reader":
		b.Mutex.RLock()
		release = b.Mutex.RUnlock
	case "writer":
		b.Mutex.Lock()
		release = func() {
			confirmed := b.IsHealthy // what a passing probe does: the flag is confirmed, not changed
			b.IsHealthy = confirmed
			b.Mutex.Unlock()
		}
	case "writer-waiting-behind-reader":
		b.Mutex.RLock()
		wdone := make(chan struct{})
		go func() {
			b.Mutex.Lock()
			b.Mutex.Unlock()
			close(wdone)
		}()
		for b.Mutex.TryRLock() { // until the writer is queued (a queued writer keeps new readers out)
			b.Mutex.RUnlock()
			runtime.Gosched()
		}
		release = func() {
			b.Mutex.RUnlock()
			<-wdone
		}
	}
	var name string
	var st int
	done := make(chan struct{})
	go func() {
		name, st = p.pick(s, via)
		close(done)
	}()
wait:
	for i := 0; i < 300; i++ {
		select {
		case <-done:
			break wait
		default:
			runtime.Gosched()
		}
	}
	release()
	<-done
	return name, st
}

// valid is the statement's "the choice is a valid eligible backend".
func (p *pool) valid(name string) string {
	switch {
	case name == "":
		return "no backend was chosen although eligible backends exist"
	case !p.isMember(name):
		return "the chosen backend " + name + " is not a member of the pool"
	case p.ejected[name]:
		return "the chosen backend " + name + " is ejected (not eligible)"
	}
	return ""
}

// attributed is the harness's own statement of Helios's documented client attribution rule
// (README / utils.GetClientIP doc): X-Forwarded-For first list element with surrounding
// whitespace removed, else X-Real-IP, else the host part of RemoteAddr. Header.Get semantics:
// only the first header line counts.
func attributed(s reqSpec) string {
	if len(s.XFF) > 0 && s.XFF[0] != "" {
		first := s.XFF[0]
		if i := strings.IndexByte(first, ','); i >= 0 {
			first = first[:i]
		}
		return strings.TrimSpace(first)
	}
	if s.XRI != "" {
		return s.XRI
	}
	return remoteHost(s.Remote)
}

func remoteHost(remote string) string {
	if h, _, err := net.SplitHostPort(remote); err == nil {
		return h
	}
	return remote
}
