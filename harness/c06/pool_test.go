package c06

import (
	"net"
	"net/http"
	"strings"
	"time"

	"github.com/0xReLogic/Helios/internal/config"
	"github.com/0xReLogic/Helios/internal/loadbalancer"
	"github.com/0xReLogic/Helios/verifharness/lab"
)

var hashStrategies = []string{"ip_hash", "ip_hash_consistent"}

// every strategy name the admin API's POST /v1/strategy accepts (lb.SetStrategy)
var allStrategies = []string{"round_robin", "least_connections", "weighted_round_robin", "ip_hash", "ip_hash_consistent"}

// setStrategy is the operator's strategy (re)selection: what POST /v1/strategy does. It leaves the
// members and their ejection windows as they are, so the eligible set is the same before and after.
func (p *pool) setStrategy(name string) error {
	return p.lb.SetStrategy(name)
}

// awayStrategies are the names other than the given one.
func awayStrategies(name string) []string {
	var out []string
	for _, s := range allStrategies {
		if s != name {
			out = append(out, s)
		}
	}
	return out
}

// pool drives one real LoadBalancer (ip_hash / ip_hash_consistent) through its exported API and
// the L1 fake network; membership and ejections are tracked on the harness side.
type pool struct {
	lb      *loadbalancer.LoadBalancer
	fn      *lab.FakeNet
	nextID  int
	names   []string
	ejected map[string]bool
}

// poolWeights: the statement's affinity and remapping clauses are about which backend a client address
// maps to and say nothing of weights, so they hold whatever weights the operator configured. Half of
// the pool sizes (per strategy) carry non-uniform weights - the shipped helios.yaml's 5/2/1, or 1/3.
func poolWeights(strategy string, n int) []int {
	ws := lab.Ones(n)
	switch (n + len(strategy)) % 4 {
	case 2:
		for i := range ws {
			ws[i] = []int{5, 2, 1}[i%3]
		}
	case 3:
		for i := range ws {
			ws[i] = []int{1, 3}[i%2]
		}
	}
	return ws
}

func newPool(strategy string, n int) (*pool, error) {
	lb, err := loadbalancer.NewLoadBalancer(lab.BaseConfig(strategy, poolWeights(strategy, n)))
	if err != nil {
		return nil, err
	}
	p := &pool{lb: lb, fn: lab.NewFakeNet(), ejected: map[string]bool{}, nextID: n}
	for i := 0; i < n; i++ {
		p.names = append(p.names, lab.BackendName(i))
	}
	p.fn.Install(lb)
	return p, nil
}

// appendBackend adds one backend at the end of the pool (what the admin API's add does).
func (p *pool) appendBackend() (string, error) {
	name := lab.BackendName(p.nextID)
	if err := p.lb.AddBackend(config.BackendConfig{Name: name, Address: "http://" + lab.BackendHost(p.nextID), Weight: 1 + p.nextID%3}); err != nil {
		return "", err
	}
	p.nextID++
	p.names = append(p.names, name)
	p.fn.Install(p.lb)
	return name, nil
}

func (p *pool) remove(name string) {
	p.lb.RemoveBackend(name)
	for i, n := range p.names {
		if n == name {
			p.names = append(p.names[:i:i], p.names[i+1:]...)
			break
		}
	}
	delete(p.ejected, name)
}

// eject takes a backend out for an hour of real time (far longer than any case runs), so the
// eligible set is stable and Helios's lazy health flag is unambiguous.
func (p *pool) eject(name string) {
	for _, b := range p.lb.VerifBackends() {
		if b.Name == name {
			p.lb.MarkBackendUnhealthy(b, time.Hour)
			p.ejected[name] = true
		}
	}
}

func (p *pool) isMember(name string) bool {
	for _, n := range p.names {
		if n == name {
			return true
		}
	}
	return false
}

// reqSpec is everything of a client request that the hash strategies could possibly look at.
type reqSpec struct {
	Method string            `json:"method"`
	Path   string            `json:"path"`
	XFF    []string          `json:"xff,omitempty"` // X-Forwarded-For header lines, in order
	XRI    string            `json:"xri,omitempty"`
	Remote string            `json:"remote"`
	Extra  map[string]string `json:"extra,omitempty"`
}

func (s reqSpec) build() *http.Request {
	m, path := s.Method, s.Path
	if m == "" {
		m = "GET"
	}
	if path == "" {
		path = "/"
	}
	req := lab.Request(m, path, s.Remote, s.Extra)
	if len(s.XFF) > 0 {
		req.Header["X-Forwarded-For"] = append([]string(nil), s.XFF...)
	}
	if s.XRI != "" {
		req.Header["X-Real-Ip"] = []string{s.XRI}
	}
	return req
}

// pick sends one request and returns the backend that got it ("" = none) and the status.
func (p *pool) pick(s reqSpec, via string) (string, int) {
	if via == "next" {
		b := p.lb.NextBackend(s.build())
		if b == nil {
			return "", 0
		}
		return b.Name, 0
	}
	st, _, hdr, _ := lab.Serve(p.lb, s.build())
	host := hdr.Get("X-Backend")
	if st != 200 || host == "" {
		return "", st
	}
	return strings.TrimSuffix(host, ".test"), st
}

// valid is the statement's "the choice is a valid eligible backend".
func (p *pool) valid(name string) string {
	switch {
	case name == "":
		return "no backend was chosen although eligible backends exist"
	case !p.isMember(name):
		return "the chosen backend " + name + " is not a member of the pool"
	case p.ejected[name]:
		return "the chosen backend " + name + " is ejected (not eligible)"
	}
	return ""
}

// attributed is the harness's own statement of Helios's documented client attribution rule
// (README / utils.GetClientIP doc): X-Forwarded-For first list element with surrounding
// whitespace removed, else X-Real-IP, else the host part of RemoteAddr. Header.Get semantics:
// only the first header line counts.
func attributed(s reqSpec) string {
	if len(s.XFF) > 0 && s.XFF[0] != "" {
		first := s.XFF[0]
		if i := strings.IndexByte(first, ','); i >= 0 {
			first = first[:i]
		}
		return strings.TrimSpace(first)
	}
	if s.XRI != "" {
		return s.XRI
	}
	return remoteHost(s.Remote)
}

func remoteHost(remote string) string {
	if h, _, err := net.SplitHostPort(remote); err == nil {
		return h
	}
	return remote
}
