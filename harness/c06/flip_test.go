package c06

import (
	"fmt"
	"net/http"
	"runtime"
	"sync"
	"sync/atomic"
	"testing"
	"time"

	"github.com/0xReLogic/Helios/internal/loadbalancer"
	"github.com/0xReLogic/Helios/verifharness/lab"
)

// Validity while the eligible set is changing (real threads). One backend of the pool keeps being
// ejected and re-admitted by one goroutine; all others stay healthy throughout. G goroutines pick
// for many client addresses. No affinity claim is made while the set changes; the validity clause
// still applies: every request gets a backend, it is a member, and it is one of the always-healthy
// backends or the flipping one - never "no healthy backend".
//
// mode "next": picks through lb.NextBackend; the flipper runs as fast as it can (eject with a 1 ns
// window, re-admit through lb.IsBackendHealthy). mode "serve": requests through lb.ServeHTTP on the
// fake network; the flipper holds each state for 0.2-1 ms, far longer than one request takes, so
// that ServeHTTP's three selection attempts cannot all collide with a transition on a correct tree.

type flipCase struct {
	Strategy string `json:"strategy"`
	N        int    `json:"backends"`
	Flip     int    `json:"flipping_backend"`
	G        int    `json:"goroutines"`
	Clients  int    `json:"clients"`
	Picks    int    `json:"picks_per_goroutine"`
	Mode     string `json:"mode"`
	Round    int    `json:"round,omitempty"`
}

func flipRound(c flipCase) (string, int64, error) {
	p, err := newPool(c.Strategy, c.N)
	if err != nil {
		return "", 0, err
	}
	defer p.lb.Stop()
	var fb *loadbalancer.Backend
	for _, b := range p.lb.VerifBackends() {
		if b.Name == lab.BackendName(c.Flip) {
			fb = b
		}
	}
	// client requests: addresses of all carriers; built once, only read by the pickers
	specs := make([]reqSpec, c.Clients)
	reqs := make([]*http.Request, c.Clients)
	for i := range specs {
		addr := fmt.Sprintf("10.%d.%d.%d", (i*7+c.Round)%256, (i/256)%256, i%256)
		switch i % 4 {
		case 0:
			specs[i] = reqSpec{Remote: addr + ":4000"}
		case 1:
			specs[i] = reqSpec{XFF: []string{addr}, Remote: "192.0.2.1:4000"}
		case 2:
			specs[i] = reqSpec{XFF: []string{addr + ", 192.0.2.9"}, Remote: "192.0.2.1:4000"}
		default:
			specs[i] = reqSpec{XRI: fmt.Sprintf("2001:db8::%x", i), Remote: "192.0.2.1:4000"}
		}
		reqs[i] = specs[i].build()
	}
	var stop, ready, goFlag int32
	var flips int64
	var fwg sync.WaitGroup
	fwg.Add(1)
	go func() {
		defer fwg.Done()
		for atomic.LoadInt32(&goFlag) == 0 {
			runtime.Gosched()
		}
		for k := 0; atomic.LoadInt32(&stop) == 0; k++ {
			if c.Mode == "next" {
				p.lb.MarkBackendUnhealthy(fb, time.Nanosecond)
				for !p.lb.IsBackendHealthy(fb) {
				}
			} else {
				hold := time.Duration(200+(k%5)*200) * time.Microsecond
				p.lb.MarkBackendUnhealthy(fb, hold)
				time.Sleep(hold + 50*time.Microsecond)
				for !p.lb.IsBackendHealthy(fb) { // ServeHTTP re-admits it as well; whoever comes first
					runtime.Gosched()
				}
				time.Sleep(hold)
			}
			atomic.AddInt64(&flips, 1)
		}
	}()
	viols := make([]string, c.G)
	var wg sync.WaitGroup
	for g := 0; g < c.G; g++ {
		wg.Add(1)
		go func(g int) {
			defer wg.Done()
			atomic.AddInt32(&ready, 1)
			for atomic.LoadInt32(&goFlag) == 0 {
				runtime.Gosched()
			}
			for i := 0; i < c.Picks && atomic.LoadInt32(&stop) == 0; i++ {
				ci := (i*31 + g*17) % c.Clients
				var name string
				var st int
				if c.Mode == "next" {
					if b := p.lb.NextBackend(reqs[ci]); b != nil {
						name = b.Name
					}
				} else {
					name, st = p.pick(specs[ci], "serve")
				}
				if name == "" || !p.isMember(name) {
					viols[g] = fmt.Sprintf("request %+v got backend %q (status %d) while %s is being ejected/re-admitted and the other %d backends are healthy throughout",
						specs[ci], name, st, fb.Name, c.N-1)
					atomic.StoreInt32(&stop, 1)
					return
				}
			}
		}(g)
	}
	for atomic.LoadInt32(&ready) < int32(c.G) {
		runtime.Gosched()
	}
	atomic.StoreInt32(&goFlag, 1)
	wg.Wait()
	atomic.StoreInt32(&stop, 1)
	fwg.Wait()
	for _, v := range viols {
		if v != "" {
			return v, flips, nil
		}
	}
	return "", flips, nil
}

func TestC06ValidityUnderHealthFlips(t *testing.T) {
	const name = "validity-under-health-flips"
	sub := lab.Sub(name, "stress on real threads (not in a synctest bubble): pool 3..8, both strategies, ONE backend is ejected and re-admitted in a loop by one goroutine (the others stay "+
		"healthy), G in {2,4,8,16} goroutines pick for 64..1024 client addresses (RemoteAddr / X-Forwarded-For single and list / X-Real-IP) through lb.NextBackend (flipper at full speed) "+
		"or lb.ServeHTTP(L1) (each state held 0.2-1 ms); oracle = validity only: every request gets a backend that is a pool member (always-healthy or the flipping one), never "+
		"'no healthy backend'; no affinity claim while the set changes; non-trivial = the flipping backend changed state at least 10 times during the round")
	sub.NontrivialFloor(0.8)
	var rc flipCase
	if lab.ReplayCase(name, &rc) {
		for i := 0; i < 50; i++ {
			v, _, err := flipRound(rc)
			if err != nil {
				t.Fatalf("harness: %v", err)
			}
			if v != "" {
				lab.Violation(t, name, rc, "replay round %d: %s", i, v)
			}
		}
		return
	}
	if lab.Replaying() {
		t.Skip("replay of another sub-check")
	}
	rounds := lab.Share(lab.Scale(120, 2400))
	gs := []int{2, 4, 8, 16}
	totalFlips := int64(0)
	for r := 0; r < rounds; r++ {
		x := r + lab.Shard()*7919 + int(lab.Seed()%100000)
		c := flipCase{Strategy: hashStrategies[x%2], N: 3 + (x/2)%6, G: gs[(x/12)%len(gs)], Clients: 64 << uint((x/48)%5), Mode: "next", Picks: 25000, Round: r}
		c.Flip = (x / 7) % c.N
		if (x/3)%4 == 0 {
			c.Mode, c.Picks = "serve", 1500
		}
		v, flips, err := flipRound(c)
		if err != nil {
			t.Fatalf("harness: %v", err)
		}
		totalFlips += flips
		key := c
		key.Round = 0
		sub.Case(key, flips >= 10, c.Strategy, "mode-"+c.Mode, fmt.Sprintf("G%d", c.G), fmt.Sprintf("n%d", c.N))
		if v != "" {
			lab.Violation(t, name, c, "%s n=%d G=%d mode=%s after %d transitions: %s", c.Strategy, c.N, c.G, c.Mode, flips, v)
		}
	}
	sub.Count("health-transitions", int(totalFlips))
}
