package c06

import (
	"fmt"
	"testing"

	"github.com/0xReLogic/Helios/verifharness/lab"
	"pgregory.net/rapid"
)

// TestC06ConsistentAppend: ip_hash_consistent, append histories. After a backend is appended, every
// client either keeps its backend or moves to the new backend.
func TestC06ConsistentAppend(t *testing.T) {
	sub := lab.Sub("consistent-append", "rapid: ip_hash_consistent, start pool 1..12 (optionally after removals that reorder the pool, optionally with a stable ejected subset), "+
		"20..120 client requests of every address class and carrier, then 1..5 appends one at a time (pool <= 17); backends (the appended ones too) named by a drawn scheme "+
		"(b0.., web-1..web-10.., zero-padded, count-down, host:port, tiers, free names in a drawn order), so the appended name sorts before, between or after the existing ones; "+
		"0..2 read-only admin / monitoring calls (listings, metrics, health; see sub-check affinity) before and after each append; after every append each client's backend is its previous "+
		"one or the backend just appended, and is an eligible member; through lb.NextBackend or lb.ServeHTTP(L1); non-trivial = some append step starts from >=2 eligible backends")
	sub.NontrivialFloor(0.7)
	sub.Floor("some-client-moved", 0.5)
	sub.Floor("ejected-present", 0.1)
	sub.Floor("after-removals", 0.1)
	sub.Floor("listing-around-append-of-unsorted-pool", 0.25)
	lab.Check(t, sub, 2000, 40000, func(rt *rapid.T) {
		n0 := rapid.IntRange(1, 12).Draw(rt, "n0")
		p, err := newPoolWith("ip_hash_consistent", n0, poolOpts{Naming: genNaming(rt)})
		if err != nil {
			rt.Fatalf("harness: %v", err)
		}
		defer p.lb.Stop()
		var labels []string
		removed := 0
		if n0 >= 3 && rapid.IntRange(0, 4).Draw(rt, "removals") == 0 {
			for i, m := 0, rapid.IntRange(1, n0-2).Draw(rt, "nrem"); i < m; i++ {
				p.remove(p.names[rapid.IntRange(0, len(p.names)-1).Draw(rt, "victim")])
				removed++
			}
			labels = append(labels, "after-removals")
		}
		if len(p.names) >= 2 && rapid.IntRange(0, 4).Draw(rt, "withEjected") == 0 {
			k := rapid.IntRange(1, len(p.names)-1).Draw(rt, "ejected")
			for _, name := range rapid.Permutation(p.names).Draw(rt, "which")[:k] {
				p.eject(name)
			}
			labels = append(labels, "ejected-present")
		}
		via := rapid.SampledFrom([]string{"next", "serve"}).Draw(rt, "via")
		nc := rapid.IntRange(20, 120).Draw(rt, "clients")
		clients := make([]reqSpec, nc)
		for i := range clients {
			a, _ := genAddr(rt, "client")
			clients[i], _ = genRequestFor(rt, a)
		}
		steps := rapid.IntRange(1, 5).Draw(rt, "appends")
		prev := make([]string, nc)
		for i, c := range clients {
			prev[i], _ = p.pick(c, via)
			if v := p.valid(prev[i]); v != "" {
				rt.Fatalf("harness-independent validity: request %+v: %s", c, v)
			}
		}
		nt, moved := false, 0
		viol := ""
		var observed []string
		listedUnsorted := false
		look := func(when string) {
			kinds, wasUnsorted := genObservers(rt), p.unsortedNow()
			for _, k := range kinds {
				p.observe(k, p.ejected)
				observed = append(observed, when+":"+observerNames[k])
			}
			if hasListing(kinds) && wasUnsorted {
				listedUnsorted = true
			}
		}
		startEligible := len(p.names) - len(p.ejected)
	outer:
		for s := 0; s < steps; s++ {
			if len(p.names)-len(p.ejected) >= 2 {
				nt = true
			}
			before := append([]string(nil), p.names...)
			look(fmt.Sprintf("before-append-%d", s+1))
			added, err := p.appendBackend()
			if err != nil {
				rt.Fatalf("harness: %v", err)
			}
			look(fmt.Sprintf("after-append-%d", s+1))
			for i, c := range clients {
				now, _ := p.pick(c, via)
				if v := p.valid(now); v != "" {
					viol = fmt.Sprintf("append #%d (%s): request %+v: %s", s+1, added, c, v)
					break outer
				}
				if now != prev[i] && now != added {
					viol = fmt.Sprintf("append #%d: pool %v (ejected %v) + %s: client %q moved from %s to %s, which is not the new backend (read-only admin/monitoring calls so far: %v); its request: %+v",
						s+1, before, keysOf(p.ejected), added, attributed(c), prev[i], now, observed, c)
					break outer
				}
				if now != prev[i] {
					moved++
				}
				prev[i] = now
			}
		}
		if moved > 0 {
			labels = append(labels, "some-client-moved")
		}
		labels = append(labels, "via-"+via, fmt.Sprintf("start-eligible-%d", startEligible), "names-"+p.naming.Scheme)
		if p.unsortedNow() {
			labels = append(labels, "arrival-order-is-not-name-order")
		}
		if listedUnsorted {
			labels = append(labels, "listing-around-append-of-unsorted-pool")
		}
		sub.Case(map[string]any{"naming": p.naming, "observers": observed, "n0": n0, "removed": removed, "ejected": keysOf(p.ejected), "clients": nc, "first_client": clients[0], "appends": steps, "via": via}, nt, labels...)
		if viol != "" {
			rt.Fatalf("%s", note("consistent-append", "ip_hash_consistent n0=%d via=%s: %s", n0, via, viol))
		}
	})
}
