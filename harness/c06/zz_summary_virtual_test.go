//go:build go1.25

package c06

import "testing"

// TestC06ZZSummaryVirtual is TestC06ZZSummary for the binary that runs the virtual-time sub-checks only.
func TestC06ZZSummaryVirtual(t *testing.T) { printNoted(t) }
