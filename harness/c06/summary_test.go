package c06

import (
	"fmt"
	"strings"
	"sync"
	"testing"

	"github.com/0xReLogic/Helios/verifharness/lab"
)

// The rapid sub-checks report a violation through rapid (fail file, shrinking), and rapid prints the
// message in front of the list of draws, which can be long; a schedule-dependent violation that rapid
// cannot re-create is reported by it as "flaky test" with the message inside a traceback. So that the
// message is also found at the end of the process's output, the property functions note it here and
// the last test of the binary prints every noted message once more ("violation in <sub-check>: ...").
// Nothing is decided here: the sub-check that noted the message has failed already.
var noted struct {
	sync.Mutex
	order []string
	msg   map[string]string
}

// note remembers the message of the violation sub is about to report; during shrinking the latest
// (smallest) case wins.
func note(sub, format string, args ...any) string {
	m := fmt.Sprintf(format, args...)
	noted.Lock()
	defer noted.Unlock()
	if noted.msg == nil {
		noted.msg = map[string]string{}
	}
	if _, ok := noted.msg[sub]; !ok {
		noted.order = append(noted.order, sub)
	}
	noted.msg[sub] = m
	return m
}

func printNoted(t *testing.T) {
	if lab.Replaying() {
		t.Skip()
	}
	noted.Lock()
	defer noted.Unlock()
	for i, sub := range noted.order {
		if i == 3 {
			break
		}
		m := strings.ReplaceAll(noted.msg[sub], "\n", " | ")
		if len(m) > 560 {
			m = m[:560] + "..."
		}
		fmt.Printf("violation in %s: %s\n", sub, m)
	}
}
