package c06

import (
	"net"
	"testing"

	"github.com/0xReLogic/Helios/verifharness/lab"
)

// FuzzAddress is the byte-level target: arbitrary bytes in the three address carriers and a pool
// size. `go test` (and the driver) run its seed corpus; `go test -fuzz FuzzAddress` explores.
// Oracles: validity, determinism, affinity under variation of irrelevant parts (path, method,
// peer/source port), and - for ip_hash_consistent - minimal remapping on one append.
func FuzzAddress(f *testing.F) {
	sub := lab.Sub("fuzz-address", "native fuzz target FuzzAddress(xff, xri, remote []byte, n uint8): seed corpus (35 hand-written triples; plus whatever the fuzzer adds when run "+
		"with -fuzz); header bytes are normalised to legal field values; both strategies, pool 1..16; oracle: valid choice, same choice for the identical request and for a "+
		"variant differing only in method/path/peer or source port, and on append the choice stays or moves to the new backend; non-trivial = pool >= 2")
	seeds := [][3]string{
		{"1.2.3.4", "", "10.0.0.1:4000"}, {"1.2.3.4, 5.6.7.8", "", "10.0.0.1:4000"}, {"1.2.3.4 , 5.6.7.8", "", "10.0.0.1:4000"}, {"", "9.9.9.9", "10.0.0.1:4000"},
		{"", "", "10.0.0.1:4000"}, {"", "", "[2001:db8::1]:443"}, {"", "", "2001:db8::1"}, {"", "", ""}, {"", "", ":80"}, {"", "", "no-port"},
		{"2001:db8::1", "", "x"}, {"::ffff:1.2.3.4", "", "x"}, {"[2001:db8::1]:80", "", "x"}, {",", "", "x"}, {",,,", "", "x"}, {", 1.2.3.4", "", "x"},
		{"unknown", "", "x"}, {"unknown, 1.2.3.4", "", "x"}, {"\xff\xfe\xfd", "", "x"}, {"a\tb", "", "x"}, {"1.2.3.4 ", "", "x"}, {"１.２.３.４", "", "x"},
		{"", ",", "x"}, {"", "1.2.3.4, 5.6.7.8", "x"}, {"", "", "1.2.3.4,5.6.7.8:80"}, {"", "", "[::1"}, {"", "", "::1]:80"}, {"", "", "[]:80"},
		{"", "", "\x00\x01"}, {"fe80::1%eth0", "", "x"}, {"1.2.3.4:5678", "", "x"}, {"for=1.2.3.4", "", "x"}, {"0", "0", "0"},
		{"aaaaaaaaaaaaaaaaaaaaaaaaaaaaaaaaaaaaaaaaaaaaaaaaaaaaaaaaaaaaaaaa", "", "x"}, {" ", " ", " "},
	}
	for i, s := range seeds {
		f.Add([]byte(s[0]), []byte(s[1]), []byte(s[2]), uint8(i*7))
	}
	f.Fuzz(func(t *testing.T, xffB, xriB, remoteB []byte, nb uint8) {
		n := 1 + int(nb)%16
		s := reqSpec{Method: "GET", Path: "/", XRI: fieldValue(xriB), Remote: string(remoteB)}
		if x := fieldValue(xffB); x != "" || len(xffB) > 0 {
			s.XFF = []string{x}
		}
		// variant: only irrelevant parts change
		v := s
		v.Method, v.Path = "POST", "/other/path?q=1"
		v.Extra = map[string]string{"User-Agent": "fuzz", "True-Client-Ip": "203.0.113.9"}
		if (len(s.XFF) > 0 && s.XFF[0] != "") || s.XRI != "" {
			v.Remote = "198.51.100.7:1"
		} else if h, _, err := net.SplitHostPort(s.Remote); err == nil {
			if c := net.JoinHostPort(h, "1"); remoteHost(c) == h {
				v.Remote = c
			}
		}
		if attributed(v) != attributed(s) {
			t.Fatalf("harness: variant %+v attributed differently from %+v", v, s)
		}
		sub.Case(map[string]any{"request": s, "n": n}, n >= 2, "seed-or-fuzz-input")
		for _, strategy := range hashStrategies {
			p, err := newPool(strategy, n)
			if err != nil {
				t.Fatalf("harness: %v", err)
			}
			for _, via := range []string{"next", "serve"} {
				a, _ := p.pick(s, via)
				b, _ := p.pick(s, via)
				c, _ := p.pick(v, via)
				if m := p.valid(a); m != "" {
					t.Fatalf("%s n=%d via=%s request %+v: %s", strategy, n, via, s, m)
				}
				if a != b {
					t.Fatalf("%s n=%d via=%s: identical request %+v went to %s then %s", strategy, n, via, s, a, b)
				}
				if a != c {
					t.Fatalf("%s n=%d via=%s: %+v went to %s but %+v (same client %q, only method/path/peer/port/unrelated headers differ) went to %s", strategy, n, via, s, a, v, attributed(s), c)
				}
			}
			if strategy == "ip_hash_consistent" {
				old, _ := p.pick(s, "next")
				added, err := p.appendBackend()
				if err != nil {
					t.Fatalf("harness: %v", err)
				}
				now, _ := p.pick(s, "next")
				if m := p.valid(now); m != "" {
					t.Fatalf("after append: %s", m)
				}
				if now != old && now != added {
					t.Fatalf("ip_hash_consistent n=%d + %s: request %+v moved from %s to %s, not the new backend", n, added, s, old, now)
				}
			}
			p.lb.Stop()
		}
	})
}
