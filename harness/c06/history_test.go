//go:build go1.25

package c06

import (
	"fmt"
	"testing"
	"time"

	"github.com/0xReLogic/Helios/verifharness/lab"
	"pgregory.net/rapid"
)

// Affinity after a history. The pool the window runs on has been through ejections, re-admissions
// (virtual-time expiry of the ejection window), additions and removals, with traffic in between -
// from the clients that are observed later and from others. The statement's claim starts once the
// eligible set is stable: from then on, all requests of one client reach one backend.
//
// Eligible = member outside an ejection window. After every advance of time the harness calls the
// exported lb.IsBackendHealthy on the backends whose window ran out (what ServeHTTP does before
// every pick), so Helios's lazily updated health flag agrees with that for both lb.NextBackend and
// lb.ServeHTTP.

type ahEvent struct {
	K string `json:"k"` // eject | readmit | adv | add | remove | observed | other | strategy (D = name)
	I int    `json:"i,omitempty"`
	D string `json:"d,omitempty"`
}

var ahEjectFor = []time.Duration{time.Second, 30 * time.Second, 10 * time.Minute}

// time that passes between two requests of the window (clipped so that no ejection window ends)
var ahWindowAdvance = []time.Duration{time.Millisecond, 40 * time.Millisecond, 300 * time.Millisecond, time.Second, 3 * time.Second, 7 * time.Second, 20 * time.Second, 2 * time.Minute, time.Hour}

func TestC06AffinityAfterHistory(t *testing.T) {
	sub := lab.Sub("affinity-after-history", "rapid, virtual time: strategy in {ip_hash, ip_hash_consistent}, pool 2..10 (one case in twelve: 64/65/66/100/130), 1..4 observed clients (2..4 request variants each); history of 3..25 events: "+
		"eject(i, 1s|30s|10m), re-admit (time passes beyond the window), advance, add, remove, request of an observed client (one time in three followed by the ejection of the very backend that served it), request of another client, selection of a strategy by the operator (lb.SetStrategy: the case's own again or any of the five; events then run under whatever is selected), a read-only admin / monitoring call (listings, metrics, health; see sub-check affinity); backends named by a drawn scheme (see affinity; removals reorder the pool as well); then, back under the case's strategy and with the eligible "+
		"set stable, every observed client sends all its variants twice, interleaved with each other and with other clients, through lb.NextBackend or lb.ServeHTTP(L1), before one window request in four 1..2 read-only admin / monitoring calls are made, and before one window request in eight the operator re-selects the strategy (the active one again, or another one and back with 0..2 requests of other clients while away; members and ejections untouched, every judged request is sent under the case's strategy), and before one window request in three time passes (1ms..1h of virtual time, clipped so that it stays strictly inside every running ejection window: the eligible set is unchanged, a client simply comes back later - also shortly after a backend was re-admitted by the history); "+
		"oracle (window only): one backend per client, every choice an eligible member; non-trivial = >=2 eligible backends in the window and the history changed the eligible set "+
		"after an observed client had already been served")
	sub.NontrivialFloor(0.5)
	sub.Floor("readmitted-before-window", 0.3)
	sub.Floor("ejected-in-window", 0.2)
	sub.Floor("membership-changed", 0.3)
	sub.Floor("observed-then-health-change", 0.5)
	sub.Floor("strategy-reselected-in-window", 0.4)
	sub.Floor("listing-in-window-of-unsorted-pool", 0.3)
	sub.Floor("time-passes-in-window", 0.5)
	lab.Check(t, sub, 2500, 60000, func(rt *rapid.T) {
		strategy := rapid.SampledFrom(hashStrategies).Draw(rt, "strategy")
		via := rapid.SampledFrom([]string{"next", "serve"}).Draw(rt, "via")
		n0 := rapid.IntRange(2, 10).Draw(rt, "n0")
		if rapid.IntRange(0, 11).Draw(rt, "large_pool") == 0 {
			n0 = rapid.SampledFrom([]int{64, 65, 66, 100, 130}).Draw(rt, "n0_large") // around and beyond a machine word of backends
		}
		nm := genNaming(rt)
		nc := rapid.IntRange(1, 4).Draw(rt, "clients")
		addrs := make([]string, nc)
		variants := make([][]reqSpec, nc)
		for c := range addrs {
			addrs[c], _ = genAddr(rt, "client")
			for v, m := 0, rapid.IntRange(2, 4).Draw(rt, "variants"); v < m; v++ {
				s, _ := genRequestFor(rt, addrs[c])
				variants[c] = append(variants[c], s)
			}
		}
		nev := rapid.IntRange(3, 25).Draw(rt, "events")
		var evs []ahEvent
		var viol string
		var nReadmit, nMember, nEligibleWin, nMembersWin, nSwitchHist, nSwitchWin, nObsHist, nObsWin, nAdvWin int
		var advWin time.Duration            // time that passed inside the window in total
		var lastReadmit, winStart time.Time // virtual clock: last re-admission of the history, start of the window
		unsortedWin, listedUnsortedWin := false, false
		changedAfterObserved := false
		rapid.SyncTest(rt, func(rt *rapid.T) {
			p, err := newPoolWith(strategy, n0, poolOpts{Naming: nm})
			if err != nil {
				rt.Fatalf("harness: %v", err)
			}
			defer p.lb.Stop()
			until := map[string]time.Time{}
			// a read-only admin / monitoring call. Backends inside an ejection window are exactly p.ejected
			// here (sweep() runs after every advance of time), so the call cannot re-admit anything.
			look := func(k int) {
				p.observe(k, p.ejected)
				evs = append(evs, ahEvent{K: "look", D: observerNames[k]})
			}
			sweep := func() {
				now := time.Now()
				for _, b := range p.lb.VerifBackends() {
					if p.ejected[b.Name] && now.After(until[b.Name]) {
						if !p.lb.IsBackendHealthy(b) {
							panic("harness: backend not healthy after its ejection window")
						}
						delete(p.ejected, b.Name)
						nReadmit++
						lastReadmit = now
					}
				}
			}
			observedServed := false
			healthChange := func() {
				if observedServed {
					changedAfterObserved = true
				}
			}
			other := func() {
				a, _ := genAddr(rt, "other")
				s, _ := genRequestFor(rt, a)
				p.pick(s, via)
			}
			// the strategy the operator has selected right now (lb.SetStrategy = POST /v1/strategy). A
			// (re)selection leaves members and ejection windows alone: the eligible set is unchanged by it.
			current := strategy
			setStrategy := func(name string) {
				if err := p.setStrategy(name); err != nil {
					panic("harness: SetStrategy(" + name + "): " + err.Error())
				}
				current = name
				evs = append(evs, ahEvent{K: "strategy", D: name})
			}
			for e := 0; e < nev; e++ {
				var ej []int
				for i, n := range p.names {
					if p.ejected[n] {
						ej = append(ej, i)
					}
				}
				switch k := rapid.SampledFrom([]int{0, 5, 1, 5, 2, 6, 0, 5, 1, 3, 4, 6, 5, 7, 8}).Draw(rt, "ev"); {
				case k == 0: // eject
					i := rapid.IntRange(0, len(p.names)-1).Draw(rt, "i")
					d := rapid.SampledFrom(ahEjectFor).Draw(rt, "d")
					for _, b := range p.lb.VerifBackends() {
						if b.Name == p.names[i] {
							p.lb.MarkBackendUnhealthy(b, d)
						}
					}
					p.ejected[p.names[i]] = true
					until[p.names[i]] = time.Now().Add(d)
					evs = append(evs, ahEvent{K: "eject", I: i, D: d.String()})
					healthChange()
				case k == 1 && len(ej) > 0: // re-admit: time passes beyond that backend's window
					i := rapid.SampledFrom(ej).Draw(rt, "i")
					d := time.Until(until[p.names[i]]) + time.Millisecond
					time.Sleep(d)
					evs = append(evs, ahEvent{K: "readmit", I: i, D: d.String()})
					sweep()
					healthChange()
				case k == 2:
					d := rapid.SampledFrom([]time.Duration{time.Millisecond, 2 * time.Second, time.Minute}).Draw(rt, "d")
					time.Sleep(d)
					evs = append(evs, ahEvent{K: "adv", D: d.String()})
					before := nReadmit
					sweep()
					if nReadmit > before {
						healthChange()
					}
				case k == 3 && len(p.names) < 12:
					if _, err := p.appendBackend(); err != nil {
						rt.Fatalf("harness: %v", err)
					}
					evs = append(evs, ahEvent{K: "add"})
					nMember++
					healthChange()
				case k == 4 && len(p.names) > 2:
					i := rapid.IntRange(0, len(p.names)-1).Draw(rt, "i")
					evs = append(evs, ahEvent{K: "remove", I: i})
					delete(until, p.names[i])
					p.remove(p.names[i])
					nMember++
					healthChange()
				case k == 6:
					evs = append(evs, ahEvent{K: "other"})
					other()
				case k == 8:
					look(rapid.SampledFrom(observerTable).Draw(rt, "observer"))
					nObsHist++
				case k == 7: // the operator selects a strategy: the case's own (again, or back to it) half of the time, else any of the five
					name := strategy
					if rapid.Bool().Draw(rt, "elsewhere") {
						name = rapid.SampledFrom(allStrategies).Draw(rt, "strategy_to")
					}
					setStrategy(name)
					nSwitchHist++
				default: // request of an observed client
					c := rapid.IntRange(0, nc-1).Draw(rt, "c")
					v := rapid.IntRange(0, len(variants[c])-1).Draw(rt, "v")
					evs = append(evs, ahEvent{K: "observed", I: c})
					home, _ := p.pick(variants[c][v], via)
					observedServed = true
					// one time in three the backend this client was just served by is ejected right away
					// (whatever its position in the pool): the client has to move
					if home != "" && !p.ejected[home] && len(p.names)-len(p.ejected) > 1 && rapid.IntRange(0, 2).Draw(rt, "eject_home") == 0 {
						d := rapid.SampledFrom(ahEjectFor).Draw(rt, "d_home")
						for i, b := range p.lb.VerifBackends() {
							if b.Name == home {
								p.lb.MarkBackendUnhealthy(b, d)
								evs = append(evs, ahEvent{K: "eject-home", I: i, D: d.String()})
							}
						}
						p.ejected[home] = true
						until[home] = time.Now().Add(d)
						healthChange()
					}
				}
			}
			// stable eligible set from here on; it must not be empty
			if len(p.ejected) == len(p.names) {
				i := rapid.IntRange(0, len(p.names)-1).Draw(rt, "revive")
				d := time.Until(until[p.names[i]]) + time.Millisecond
				time.Sleep(d)
				evs = append(evs, ahEvent{K: "readmit", I: i, D: d.String()})
				sweep()
				healthChange()
			}
			// the window runs under the case's strategy
			if current != strategy {
				setStrategy(strategy)
			}
			nMembersWin, nEligibleWin = len(p.names), len(p.names)-len(p.ejected)
			unsortedWin = p.unsortedNow()
			winStart = time.Now()
			// window: every variant of every observed client twice, in a drawn order, others in between
			type item struct{ c, v int }
			var items []item
			for c := range variants {
				for v := range variants[c] {
					items = append(items, item{c, v}, item{c, v})
				}
			}
			items = rapid.Permutation(items).Draw(rt, "order")
			first := map[int]string{}
			firstReq := map[int]reqSpec{}
			for _, it := range items {
				if rapid.IntRange(0, 2).Draw(rt, "interleave") == 0 {
					other()
				}
				// somebody looks at the balancer (listing, metrics, health): read-only, the eligible set stays as it is
				if rapid.IntRange(0, 3).Draw(rt, "win_look") == 0 {
					for j, m := 0, rapid.IntRange(1, 2).Draw(rt, "looks"); j < m; j++ {
						k := rapid.SampledFrom(observerTable).Draw(rt, "observer")
						look(k)
						nObsWin++
						if isListing(k) && unsortedWin {
							listedUnsortedWin = true
						}
					}
				}
				// time passes between two window requests (a client comes back a moment, seconds or minutes
				// later). The statement's only condition is an unchanged eligible set, and the only thing the
				// clock can do to it is to end an ejection window - so the advance stays strictly inside every
				// running ejection window (clipped to half of the shortest remainder). No sweep: nobody's
				// window runs out, members and ejections are what they were.
				if rapid.IntRange(0, 2).Draw(rt, "win_adv") == 0 {
					d := rapid.SampledFrom(ahWindowAdvance).Draw(rt, "win_adv_d")
					for nme := range p.ejected {
						if rem := time.Until(until[nme]); d >= rem {
							d = rem / 2
						}
					}
					if d > 0 {
						time.Sleep(d)
						evs = append(evs, ahEvent{K: "adv-in-window", D: d.String()})
						nAdvWin++
						advWin += d
					}
				}
				// between two window requests the operator re-selects the strategy: the active one again, or
				// another one and back (traffic of other clients while away). The eligible set stays as it is,
				// and every judged request is sent under the case's strategy.
				switch rapid.IntRange(0, 15).Draw(rt, "win_switch") {
				case 0:
					setStrategy(strategy)
					nSwitchWin++
				case 1:
					setStrategy(rapid.SampledFrom(awayStrategies(strategy)).Draw(rt, "away"))
					for j, m := 0, rapid.IntRange(0, 2).Draw(rt, "away_traffic"); j < m; j++ {
						other()
					}
					setStrategy(strategy)
					nSwitchWin++
				}
				s := variants[it.c][it.v]
				name, _ := p.pick(s, via)
				if v := p.valid(name); v != "" {
					viol = fmt.Sprintf("window request %+v: %s (members %v, ejected %v)", s, v, p.names, keysOf(p.ejected))
					return
				}
				if f, ok := first[it.c]; !ok {
					first[it.c], firstReq[it.c] = name, s
				} else if f != name {
					viol = fmt.Sprintf("after the history, with the eligible set stable (members %v, ejected %v; read-only admin/monitoring calls are the look events of the history, time that passed between window requests without ending any ejection window the adv-in-window events): client %q: request %+v went to %s, request %+v went to %s",
						p.names, keysOf(p.ejected), addrs[it.c], firstReq[it.c], f, s, name)
					return
				}
			}
		})
		labels := []string{strategy, "via-" + via}
		if nReadmit > 0 {
			labels = append(labels, "readmitted-before-window")
		}
		if nEligibleWin < nMembersWin {
			labels = append(labels, "ejected-in-window")
		}
		if nMember > 0 {
			labels = append(labels, "membership-changed")
		}
		if changedAfterObserved {
			labels = append(labels, "observed-then-health-change")
		}
		if nSwitchHist > 0 {
			labels = append(labels, "strategy-selected-in-history")
		}
		if nSwitchWin > 0 {
			labels = append(labels, "strategy-reselected-in-window")
		}
		labels = append(labels, "names-"+nm.Scheme)
		if nObsHist > 0 {
			labels = append(labels, "observer-in-history")
		}
		if nObsWin > 0 {
			labels = append(labels, "observer-in-window")
		}
		if nAdvWin > 0 {
			labels = append(labels, "time-passes-in-window")
			if advWin >= time.Second {
				labels = append(labels, "seconds-or-more-pass-in-window")
			}
			if nReadmit > 0 && winStart.Sub(lastReadmit) < time.Minute {
				labels = append(labels, "time-passes-in-window-within-a-minute-of-a-readmission")
			}
		}
		if unsortedWin {
			labels = append(labels, "pool-order-is-not-name-order-in-window")
		}
		if listedUnsortedWin {
			labels = append(labels, "listing-in-window-of-unsorted-pool")
		}
		sub.Case(map[string]any{"strategy": strategy, "naming": nm, "n0": n0, "clients": addrs, "variants": variants, "events": evs, "via": via},
			nEligibleWin >= 2 && changedAfterObserved, labels...)
		if viol != "" {
			rt.Fatalf("%s", note("affinity-after-history", "%s n0=%d via=%s: %s; clients=%q history=%+v", strategy, n0, via, viol, addrs, evs))
		}
	})
}
