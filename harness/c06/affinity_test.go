package c06

import (
	"fmt"
	"runtime"
	"sync"
	"sync/atomic"
	"testing"

	"github.com/0xReLogic/Helios/verifharness/lab"
	"pgregory.net/rapid"
)

// drawPool builds a pool of n backends with a drawn, then fixed, subset ejected (never all).
func drawPool(rt *rapid.T, strategy string, maxN int) *pool {
	n := rapid.IntRange(1, maxN).Draw(rt, "n")
	if rapid.IntRange(0, 24).Draw(rt, "large_pool") == 0 {
		n = rapid.SampledFrom([]int{63, 64, 65, 66, 100, 130}).Draw(rt, "n_large") // pool sizes around and beyond a machine word of backends
	}
	p, err := newPool(strategy, n)
	if err != nil {
		rt.Fatalf("harness: %v", err)
	}
	if n >= 2 && (n > maxN || rapid.IntRange(0, 2).Draw(rt, "withEjected") == 0) {
		k := rapid.IntRange(1, min(n-1, 6)).Draw(rt, "ejected")
		perm := rapid.Permutation(p.names).Draw(rt, "which")
		for _, name := range perm[:k] {
			p.eject(name)
		}
	}
	return p
}

// differ lists the irrelevant dimensions in which two requests of one client differ.
func differ(a, b reqSpec) []string {
	var d []string
	if a.Method != b.Method {
		d = append(d, "differ-method")
	}
	if a.Path != b.Path {
		d = append(d, "differ-path")
	}
	if fmt.Sprint(a.Extra) != fmt.Sprint(b.Extra) {
		d = append(d, "differ-other-headers")
	}
	if a.Remote != b.Remote {
		if remoteHost(a.Remote) == remoteHost(b.Remote) {
			d = append(d, "differ-source-port")
		} else {
			d = append(d, "differ-peer")
		}
	}
	if fmt.Sprint(a.XFF) != fmt.Sprint(b.XFF) || a.XRI != b.XRI {
		d = append(d, "differ-carrier")
	}
	return d
}

func uniq(in []string) []string {
	seen := map[string]bool{}
	var out []string
	for _, s := range in {
		if !seen[s] {
			seen[s] = true
			out = append(out, s)
		}
	}
	return out
}

// TestC06Affinity: sequential groups. All requests attributed to one client address reach the same
// backend while the eligible set is unchanged, whatever else differs and whatever other clients do
// in between; every choice is a valid eligible backend.
func TestC06Affinity(t *testing.T) {
	sub := lab.Sub("affinity", "rapid: strategy in {ip_hash, ip_hash_consistent}, pool 1..16 with a drawn stable ejected subset, a client address (IPv4, IPv6 in 4 spellings, "+
		"IPv4-mapped, junk tokens, 1..64 arbitrary field-value bytes, empty) and 2..6 requests attributed to it by the documented rule (X-Forwarded-For single / list with the "+
		"separator directly after the first element / X-Real-IP / RemoteAddr host) that differ in method, path, source port, peer, unrelated and lower-priority headers, later "+
		"list members, extra header lines; 0..3 requests of other clients in between; before each later request of the group, one time in four, the operator re-selects the strategy (lb.SetStrategy = POST /v1/strategy: the active one again, or any other of the five and back with 0..2 requests of other clients while away - members and ejections untouched); in one case of three the backends carry in-flight counts from {0,1,99,100,101,500} that change between the requests of the group (the client's own backend included); through lb.NextBackend or lb.ServeHTTP(L1); oracle: same backend for the whole group and "+
		"every choice is an eligible member; non-trivial = >=2 eligible backends and >=1 pair differing in an irrelevant dimension")
	sub.NontrivialFloor(0.6)
	for _, l := range []string{"src-xff-single", "src-xff-list", "src-x-real-ip", "src-remoteaddr", "differ-source-port", "differ-path", "differ-other-headers", "differ-carrier"} {
		sub.Floor(l, 0.15)
	}
	sub.Floor("addr-ipv6", 0.1)
	sub.Floor("addr-bytes", 0.08)
	sub.Floor("addr-empty", 0.03)
	sub.Floor("ejected-present", 0.15)
	sub.Floor("inflight-load-changing", 0.25)
	sub.Floor("strategy-reselected-between-requests", 0.3)
	lab.Check(t, sub, 5000, 200000, func(rt *rapid.T) {
		strategy := rapid.SampledFrom(hashStrategies).Draw(rt, "strategy")
		p := drawPool(rt, strategy, 16)
		defer p.lb.Stop()
		via := rapid.SampledFrom([]string{"next", "serve"}).Draw(rt, "via")
		var addr, class string
		var group []reqSpec
		var labels []string
		g := rapid.IntRange(2, 6).Draw(rt, "group")
		if rapid.IntRange(0, 15).Draw(rt, "emptyAddr") == 0 {
			addr, class = "", "empty"
			for i := 0; i < g; i++ {
				s := reqSpec{Method: rapid.SampledFrom(methods).Draw(rt, "method"), Path: genPath(rt), Extra: genExtra(rt),
					Remote: rapid.SampledFrom(remoteFor("", genPort(rt))).Draw(rt, "remote")}
				if rapid.Bool().Draw(rt, "emptyLine") {
					s.XFF = []string{""}
				}
				group = append(group, s)
			}
			labels = append(labels, "src-remoteaddr")
		} else {
			addr, class = genAddr(rt, "client")
			for i := 0; i < g; i++ {
				s, l := genRequestFor(rt, addr)
				group = append(group, s)
				labels = append(labels, l...)
			}
		}
		for _, s := range group {
			if got := attributed(s); got != addr {
				rt.Fatalf("harness: request %+v is attributed to %q, generator meant %q", s, got, addr)
			}
		}
		nEligible := len(p.names) - len(p.ejected)
		var others []reqSpec
		var picks []string
		var viol string
		// concurrent traffic as the balancer sees it: in one case of three the backends carry in-flight
		// counts (0, 1, and values around and far above 100) that change between the requests of the group
		loaded := rapid.IntRange(0, 2).Draw(rt, "inflight_load") == 0
		inflight := map[string]int{}
		setLoad := func(name string, n int) {
			for _, b := range p.lb.VerifBackends() {
				if b.Name != name {
					continue
				}
				for ; inflight[name] < n; inflight[name]++ {
					b.IncrementConnections()
				}
				for ; inflight[name] > n; inflight[name]-- {
					b.DecrementConnections()
				}
			}
		}
		if loaded {
			for _, name := range p.names {
				setLoad(name, rapid.SampledFrom([]int{0, 0, 1, 99, 100, 101, 500}).Draw(rt, "inflight"))
			}
		}
		// the operator (re)selects the strategy between two requests of the group (POST /v1/strategy): the
		// strategy that is active already, or another one - any of the five - and back, with traffic of other
		// clients while it is away. Members and ejections are untouched, so the eligible set is unchanged and
		// the group's requests, all sent under the case's strategy, still belong to one backend.
		var switches []string
		for i, s := range group {
			if i > 0 && viol == "" {
				switch k := rapid.IntRange(0, 7).Draw(rt, "switch"); k {
				case 0:
					if err := p.setStrategy(strategy); err != nil {
						rt.Fatalf("harness: SetStrategy(%s): %v", strategy, err)
					}
					switches = append(switches, fmt.Sprintf("%d:reapply", i))
				case 1:
					away := rapid.SampledFrom(awayStrategies(strategy)).Draw(rt, "away")
					if err := p.setStrategy(away); err != nil {
						rt.Fatalf("harness: SetStrategy(%s): %v", away, err)
					}
					for j, m := 0, rapid.IntRange(0, 2).Draw(rt, "away_traffic"); j < m; j++ {
						oa, _ := genAddr(rt, "other")
						os, _ := genRequestFor(rt, oa)
						others = append(others, os)
						p.pick(os, via) // under another strategy: outside this statement, not judged
					}
					if err := p.setStrategy(strategy); err != nil {
						rt.Fatalf("harness: SetStrategy(%s): %v", strategy, err)
					}
					switches = append(switches, fmt.Sprintf("%d:%s-and-back", i, away))
				}
			}
			if loaded && i > 0 {
				// the load moves: the backend this client is on gets busy or idle, another one changes too
				setLoad(picks[0], rapid.SampledFrom([]int{0, 99, 100, 101, 500}).Draw(rt, "inflight_home"))
				setLoad(rapid.SampledFrom(p.names).Draw(rt, "inflight_which"), rapid.SampledFrom([]int{0, 1, 100, 500}).Draw(rt, "inflight_other"))
			}
			for j, m := 0, rapid.IntRange(0, 3).Draw(rt, "others"); j < m && viol == ""; j++ {
				oa, _ := genAddr(rt, "other")
				os, _ := genRequestFor(rt, oa)
				others = append(others, os)
				name, _ := p.pick(os, via)
				if v := p.valid(name); v != "" {
					viol = fmt.Sprintf("other client's request %+v: %s", os, v)
				}
			}
			if viol != "" {
				break
			}
			name, _ := p.pick(s, via)
			picks = append(picks, name)
			if v := p.valid(name); v != "" {
				viol = fmt.Sprintf("request #%d %+v: %s", i, s, v)
				break
			}
			if name != picks[0] {
				viol = fmt.Sprintf("requests #0 %+v and #%d %+v are both attributed to client %q but went to %s and %s (eligible set unchanged: members %v, ejected %v; strategy re-selections before request #i: %v)",
					group[0], i, s, addr, picks[0], name, p.names, keysOf(p.ejected), switches)
				break
			}
		}
		var dims []string
		for i := 1; i < len(group); i++ {
			dims = append(dims, differ(group[0], group[i])...)
		}
		dims = uniq(dims)
		labels = append(uniq(labels), dims...)
		labels = append(labels, "addr-"+class, "via-"+via, strategy)
		if len(p.ejected) > 0 {
			labels = append(labels, "ejected-present")
		}
		if len(others) > 0 {
			labels = append(labels, "interleaved-others")
		}
		if loaded {
			labels = append(labels, "inflight-load-changing")
		}
		if len(switches) > 0 {
			labels = append(labels, "strategy-reselected-between-requests")
		}
		sub.Case(map[string]any{"strategy": strategy, "n": len(p.names), "ejected": keysOf(p.ejected), "addr": addr, "group": group, "others": len(others), "via": via, "switches": switches},
			nEligible >= 2 && len(dims) > 0, labels...)
		if viol != "" {
			rt.Fatalf("%s n=%d via=%s: %s", strategy, len(p.names), via, viol)
		}
	})
}

// TestC06AffinityConcurrent: the same claim under real concurrent traffic.
func TestC06AffinityConcurrent(t *testing.T) {
	sub := lab.Sub("affinity-concurrent", "rapid-drawn workload run on real goroutines: pool 2..16 (stable ejected subset), 2..12 clients with 2..5 request variants each, "+
		"G in 2..32 goroutines released together, each sending every variant of every client in its own drawn order, 3 rounds; through lb.ServeHTTP(L1) or lb.NextBackend; "+
		"oracle: every request of a client reached one and the same eligible backend; non-trivial = >=2 eligible backends")
	sub.NontrivialFloor(0.7)
	lab.Check(t, sub, 300, 6000, func(rt *rapid.T) {
		strategy := rapid.SampledFrom(hashStrategies).Draw(rt, "strategy")
		p := drawPool(rt, strategy, 16)
		defer p.lb.Stop()
		via := rapid.SampledFrom([]string{"next", "serve"}).Draw(rt, "via")
		nc := rapid.IntRange(2, 12).Draw(rt, "clients")
		type item struct {
			client int
			spec   reqSpec
		}
		var items []item
		var addrs []string
		for c := 0; c < nc; c++ {
			a, _ := genAddr(rt, "client")
			addrs = append(addrs, a)
			for v, m := 0, rapid.IntRange(2, 5).Draw(rt, "variants"); v < m; v++ {
				s, _ := genRequestFor(rt, a)
				items = append(items, item{c, s})
			}
		}
		idx := make([]int, len(items))
		for i := range idx {
			idx[i] = i
		}
		G := rapid.SampledFrom([]int{2, 3, 4, 8, 16, 32}).Draw(rt, "G")
		orders := make([][]int, G)
		for g := range orders {
			orders[g] = rapid.Permutation(idx).Draw(rt, "order")
		}
		type obs struct {
			item int
			name string
		}
		results := make([][]obs, G)
		var ready, goFlag int32
		var wg sync.WaitGroup
		for g := 0; g < G; g++ {
			wg.Add(1)
			go func(g int) {
				defer wg.Done()
				atomic.AddInt32(&ready, 1)
				for atomic.LoadInt32(&goFlag) == 0 {
					runtime.Gosched()
				}
				for round := 0; round < 3; round++ {
					for _, i := range orders[g] {
						name, _ := p.pick(items[i].spec, via)
						results[g] = append(results[g], obs{i, name})
					}
				}
			}(g)
		}
		for atomic.LoadInt32(&ready) < int32(G) {
			runtime.Gosched()
		}
		atomic.StoreInt32(&goFlag, 1)
		wg.Wait()
		nEligible := len(p.names) - len(p.ejected)
		sub.Case(map[string]any{"strategy": strategy, "n": len(p.names), "ejected": keysOf(p.ejected), "clients": addrs, "requests": len(items), "G": G, "via": via},
			nEligible >= 2, fmt.Sprintf("G%d", G), "via-"+via, strategy)
		first := map[int]obs{}
		for g := range results {
			for _, o := range results[g] {
				if v := p.valid(o.name); v != "" {
					rt.Fatalf("%s n=%d G=%d via=%s: request %+v: %s", strategy, len(p.names), G, via, items[o.item].spec, v)
				}
				c := items[o.item].client
				if f, ok := first[c]; !ok {
					first[c] = o
				} else if f.name != o.name {
					rt.Fatalf("%s n=%d G=%d via=%s: client %q: request %+v went to %s, request %+v went to %s under concurrent traffic (eligible set unchanged)",
						strategy, len(p.names), G, via, addrs[c], items[f.item].spec, f.name, items[o.item].spec, o.name)
				}
			}
		}
	})
}
