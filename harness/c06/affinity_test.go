package c06

import (
	"fmt"
	"runtime"
	"sync"
	"sync/atomic"
	"testing"
	"time"

	"github.com/0xReLogic/Helios/internal/loadbalancer"
	"github.com/0xReLogic/Helios/verifharness/lab"
	"pgregory.net/rapid"
)

// drawPool builds a pool of n backends with a drawn, then fixed, subset ejected (never all).
func drawPool(rt *rapid.T, strategy string, maxN int) *pool {
	n := rapid.IntRange(1, maxN).Draw(rt, "n")
	if rapid.IntRange(0, 24).Draw(rt, "large_pool") == 0 {
		n = rapid.SampledFrom([]int{63, 64, 65, 66, 100, 130}).Draw(rt, "n_large") // pool sizes around and beyond a machine word of backends
	}
	p, err := newPoolWith(strategy, n, poolOpts{Naming: genNaming(rt)})
	if err != nil {
		rt.Fatalf("harness: %v", err)
	}
	if n >= 2 && (n > maxN || rapid.IntRange(0, 2).Draw(rt, "withEjected") == 0) {
		k := rapid.IntRange(1, min(n-1, 6)).Draw(rt, "ejected")
		perm := rapid.Permutation(p.names).Draw(rt, "which")
		for _, name := range perm[:k] {
			p.eject(name)
		}
	}
	return p
}

// differ lists the irrelevant dimensions in which two requests of one client differ.
func differ(a, b reqSpec) []string {
	var d []string
	if a.Method != b.Method {
		d = append(d, "differ-method")
	}
	if a.Path != b.Path {
		d = append(d, "differ-path")
	}
	if fmt.Sprint(a.Extra) != fmt.Sprint(b.Extra) {
		d = append(d, "differ-other-headers")
	}
	if a.Remote != b.Remote {
		if remoteHost(a.Remote) == remoteHost(b.Remote) {
			d = append(d, "differ-source-port")
		} else {
			d = append(d, "differ-peer")
		}
	}
	if fmt.Sprint(a.XFF) != fmt.Sprint(b.XFF) || a.XRI != b.XRI {
		d = append(d, "differ-carrier")
	}
	return d
}

func uniq(in []string) []string {
	seen := map[string]bool{}
	var out []string
	for _, s := range in {
		if !seen[s] {
			seen[s] = true
			out = append(out, s)
		}
	}
	return out
}

// TestC06Affinity: sequential groups. All requests attributed to one client address reach the same
// backend while the eligible set is unchanged, whatever else differs and whatever other clients do
// in between; every choice is a valid eligible backend.
func TestC06Affinity(t *testing.T) {
	sub := lab.Sub("affinity", "rapid: strategy in {ip_hash, ip_hash_consistent}, pool 1..16 with a drawn stable ejected subset, a client address (IPv4, IPv6 in 4 spellings, "+
		"IPv4-mapped, junk tokens, 1..64 arbitrary field-value bytes, empty) and 2..6 requests attributed to it by the documented rule (X-Forwarded-For single / list with the "+
		"separator directly after the first element / X-Real-IP / RemoteAddr host) that differ in method, path, source port, peer, unrelated and lower-priority headers, later "+
		"list members, extra header lines; 0..3 requests of other clients in between; before each later request of the group, one time in four, the operator re-selects the strategy (lb.SetStrategy = POST /v1/strategy: the active one again, or any other of the five and back with 0..2 requests of other clients while away - members and ejections untouched); in one case of three the backends carry in-flight counts from {0,1,99,100,101,500} that change between the requests of the group (the client's own backend included); backends named by a drawn scheme (b0.., web-1..web-10.., zero-padded, count-down, host:port, tiers, free names in a drawn order - in most pools the order of arrival is not the byte-wise order of the names); before each later request of the group, 0..2 read-only admin / monitoring calls on the same balancer (admin GET /v1/health, /v1/backends, /v1/metrics, GET on the POST-only endpoints, metrics and health handlers, lb.ListBackends, lb.IsBackendHealthy on members that are not ejected, GetMetrics, connection gauges): they only look, the eligible set is unchanged; one later request in five is routed while somebody else is at the state of a backend (the client's own or a drawn member): its lock held by a reader, by a writer that confirms the health flag as a passing probe does, or by a reader with a writer queued behind it - nobody's health changes; through lb.NextBackend or lb.ServeHTTP(L1); oracle: same backend for the whole group and "+
		"every choice is an eligible member; non-trivial = >=2 eligible backends and >=1 pair differing in an irrelevant dimension")
	sub.NontrivialFloor(0.6)
	for _, l := range []string{"src-xff-single", "src-xff-list", "src-x-real-ip", "src-remoteaddr", "differ-source-port", "differ-path", "differ-other-headers", "differ-carrier"} {
		sub.Floor(l, 0.15)
	}
	sub.Floor("addr-ipv6", 0.1)
	sub.Floor("addr-bytes", 0.08)
	sub.Floor("addr-empty", 0.03)
	sub.Floor("ejected-present", 0.15)
	sub.Floor("inflight-load-changing", 0.25)
	sub.Floor("strategy-reselected-between-requests", 0.3)
	sub.Floor("observer-between-requests", 0.5)
	sub.Floor("listing-between-requests-of-unsorted-pool", 0.15)
	sub.Floor("routed-while-backend-lock-held", 0.3)
	lab.Check(t, sub, 5000, 200000, func(rt *rapid.T) {
		strategy := rapid.SampledFrom(hashStrategies).Draw(rt, "strategy")
		p := drawPool(rt, strategy, 16)
		defer p.lb.Stop()
		via := rapid.SampledFrom([]string{"next", "serve"}).Draw(rt, "via")
		var addr, class string
		var group []reqSpec
		var labels []string
		g := rapid.IntRange(2, 6).Draw(rt, "group")
		if rapid.IntRange(0, 15).Draw(rt, "emptyAddr") == 0 {
			addr, class = "", "empty"
			for i := 0; i < g; i++ {
				s := reqSpec{Method: rapid.SampledFrom(methods).Draw(rt, "method"), Path: genPath(rt), Extra: genExtra(rt),
					Remote: rapid.SampledFrom(remoteFor("", genPort(rt))).Draw(rt, "remote")}
				if rapid.Bool().Draw(rt, "emptyLine") {
					s.XFF = []string{""}
				}
				group = append(group, s)
			}
			labels = append(labels, "src-remoteaddr")
		} else {
			addr, class = genAddr(rt, "client")
			for i := 0; i < g; i++ {
				s, l := genRequestFor(rt, addr)
				group = append(group, s)
				labels = append(labels, l...)
			}
		}
		for _, s := range group {
			if got := attributed(s); got != addr {
				rt.Fatalf("harness: request %+v is attributed to %q, generator meant %q", s, got, addr)
			}
		}
		nEligible := len(p.names) - len(p.ejected)
		var others []reqSpec
		var picks []string
		var viol string
		// concurrent traffic as the balancer sees it: in one case of three the backends carry in-flight
		// counts (0, 1, and values around and far above 100) that change between the requests of the group
		loaded := rapid.IntRange(0, 2).Draw(rt, "inflight_load") == 0
		inflight := map[string]int{}
		setLoad := func(name string, n int) {
			for _, b := range p.lb.VerifBackends() {
				if b.Name != name {
					continue
				}
				for ; inflight[name] < n; inflight[name]++ {
					b.IncrementConnections()
				}
				for ; inflight[name] > n; inflight[name]-- {
					b.DecrementConnections()
				}
			}
		}
		if loaded {
			for _, name := range p.names {
				setLoad(name, rapid.SampledFrom([]int{0, 0, 1, 99, 100, 101, 500}).Draw(rt, "inflight"))
			}
		}
		// the operator (re)selects the strategy between two requests of the group (POST /v1/strategy): the
		// strategy that is active already, or another one - any of the five - and back, with traffic of other
		// clients while it is away. Members and ejections are untouched, so the eligible set is unchanged and
		// the group's requests, all sent under the case's strategy, still belong to one backend.
		var switches []string
		// read-only admin / monitoring calls between two requests of the group
		var observed []string
		listedUnsorted := false
		// whose lock was held by somebody else while request #i was routed
		var held []string
		for i, s := range group {
			if i > 0 && viol == "" {
				kinds, wasUnsorted := genObservers(rt), p.unsortedNow()
				for _, k := range kinds {
					p.observe(k, p.ejected)
					observed = append(observed, fmt.Sprintf("%d:%s", i, observerNames[k]))
				}
				if hasListing(kinds) && wasUnsorted {
					listedUnsorted = true
				}
			}
			if i > 0 && viol == "" {
				switch k := rapid.IntRange(0, 7).Draw(rt, "switch"); k {
				case 0:
					if err := p.setStrategy(strategy); err != nil {
						rt.Fatalf("harness: SetStrategy(%s): %v", strategy, err)
					}
					switches = append(switches, fmt.Sprintf("%d:reapply", i))
				case 1:
					away := rapid.SampledFrom(awayStrategies(strategy)).Draw(rt, "away")
					if err := p.setStrategy(away); err != nil {
						rt.Fatalf("harness: SetStrategy(%s): %v", away, err)
					}
					for j, m := 0, rapid.IntRange(0, 2).Draw(rt, "away_traffic"); j < m; j++ {
						oa, _ := genAddr(rt, "other")
						os, _ := genRequestFor(rt, oa)
						others = append(others, os)
						p.pick(os, via) // under another strategy: outside this statement, not judged
					}
					if err := p.setStrategy(strategy); err != nil {
						rt.Fatalf("harness: SetStrategy(%s): %v", strategy, err)
					}
					switches = append(switches, fmt.Sprintf("%d:%s-and-back", i, away))
				}
			}
			if loaded && i > 0 {
				// the load moves: the backend this client is on gets busy or idle, another one changes too
				setLoad(picks[0], rapid.SampledFrom([]int{0, 99, 100, 101, 500}).Draw(rt, "inflight_home"))
				setLoad(rapid.SampledFrom(p.names).Draw(rt, "inflight_which"), rapid.SampledFrom([]int{0, 1, 100, 500}).Draw(rt, "inflight_other"))
			}
			for j, m := 0, rapid.IntRange(0, 3).Draw(rt, "others"); j < m && viol == ""; j++ {
				oa, _ := genAddr(rt, "other")
				os, _ := genRequestFor(rt, oa)
				others = append(others, os)
				name, _ := p.pick(os, via)
				if v := p.valid(name); v != "" {
					viol = fmt.Sprintf("other client's request %+v: %s", os, v)
				}
			}
			if viol != "" {
				break
			}
			var name string
			if i > 0 && rapid.IntRange(0, 4).Draw(rt, "contended") == 0 {
				target := picks[0]
				if rapid.Bool().Draw(rt, "hold_other") {
					target = rapid.SampledFrom(p.names).Draw(rt, "hold_which")
				}
				hold := rapid.SampledFrom(lockHolds).Draw(rt, "hold")
				held = append(held, fmt.Sprintf("%d:%s@%s", i, hold, target))
				name, _ = p.pickContended(s, via, target, hold)
			} else {
				name, _ = p.pick(s, via)
			}
			picks = append(picks, name)
			if v := p.valid(name); v != "" {
				viol = fmt.Sprintf("request #%d %+v: %s (backend locks held by others while request #i was routed: %v)", i, s, v, held)
				break
			}
			if name != picks[0] {
				viol = fmt.Sprintf("client %q: request #0 went to %s, request #%d went to %s, although the eligible set is unchanged (members in order of arrival %v, ejected %v; strategy re-selections before request #i: %v; read-only admin/monitoring calls before request #i: %v; backend locks held by others (health unchanged) while request #i was routed: %v); both requests are attributed to that client: #0 %+v, #%d %+v",
					addr, picks[0], i, name, p.names, keysOf(p.ejected), switches, observed, held, group[0], i, s)
				break
			}
		}
		var dims []string
		for i := 1; i < len(group); i++ {
			dims = append(dims, differ(group[0], group[i])...)
		}
		dims = uniq(dims)
		labels = append(uniq(labels), dims...)
		labels = append(labels, "addr-"+class, "via-"+via, strategy)
		if len(p.ejected) > 0 {
			labels = append(labels, "ejected-present")
		}
		if len(others) > 0 {
			labels = append(labels, "interleaved-others")
		}
		if loaded {
			labels = append(labels, "inflight-load-changing")
		}
		if len(switches) > 0 {
			labels = append(labels, "strategy-reselected-between-requests")
		}
		labels = append(labels, "names-"+p.naming.Scheme)
		if p.unsortedNow() {
			labels = append(labels, "arrival-order-is-not-name-order")
		}
		if len(observed) > 0 {
			labels = append(labels, "observer-between-requests")
		}
		if listedUnsorted {
			labels = append(labels, "listing-between-requests-of-unsorted-pool")
		}
		if len(held) > 0 {
			labels = append(labels, "routed-while-backend-lock-held")
		}
		sub.Case(map[string]any{"strategy": strategy, "n": len(p.names), "naming": p.naming, "ejected": keysOf(p.ejected), "addr": addr, "group": group, "others": len(others), "via": via, "switches": switches, "observers": observed, "held": held},
			nEligible >= 2 && len(dims) > 0, labels...)
		if viol != "" {
			rt.Fatalf("%s", note("affinity", "%s n=%d via=%s: %s", strategy, len(p.names), via, viol))
		}
	})
}

// TestC06AffinityConcurrent: the same claim under real concurrent traffic.
func TestC06AffinityConcurrent(t *testing.T) {
	sub := lab.Sub("affinity-concurrent", "rapid-drawn workload run on real goroutines: pool 2..16 (stable ejected subset), 2..12 clients with 2..5 request variants each, "+
		"one sequential request per client first, then G in 2..32 goroutines released together, each sending every variant of every client in its own drawn order, 3 rounds; through lb.ServeHTTP(L1) or lb.NextBackend; "+
		"backends named by a drawn scheme (see affinity); beside the clients, released with them and running until they are done (at most 4 passes / 200 rounds), 0..2 goroutines that only look at the balancer (each a drawn sequence of 3..10 "+
		"read-only admin / monitoring calls, see affinity: they take the pool's and the backends' locks as readers) and, when some backend is ejected, in half of the cases one goroutine that ejects the "+
		"already ejected backends again for an hour (it takes their locks as a writer; nobody's health changes), and in one case of three one goroutine that goes round the backends taking each one's lock for a moment "+
		"(as a writer that confirms the health flag the way a passing probe does, or as a reader) - nobody's health changes; "+
		"oracle: every request of a client reached one and the same eligible backend; non-trivial = >=2 eligible backends")
	sub.NontrivialFloor(0.7)
	sub.Floor("observers-beside-clients", 0.5)
	sub.Floor("listing-beside-clients-of-unsorted-pool", 0.25)
	lab.Check(t, sub, 300, 6000, func(rt *rapid.T) {
		strategy := rapid.SampledFrom(hashStrategies).Draw(rt, "strategy")
		p := drawPool(rt, strategy, 16)
		defer p.lb.Stop()
		via := rapid.SampledFrom([]string{"next", "serve"}).Draw(rt, "via")
		nc := rapid.IntRange(2, 12).Draw(rt, "clients")
		type item struct {
			client int
			spec   reqSpec
		}
		var items []item
		var addrs []string
		for c := 0; c < nc; c++ {
			a, _ := genAddr(rt, "client")
			addrs = append(addrs, a)
			for v, m := 0, rapid.IntRange(2, 5).Draw(rt, "variants"); v < m; v++ {
				s, _ := genRequestFor(rt, a)
				items = append(items, item{c, s})
			}
		}
		idx := make([]int, len(items))
		for i := range idx {
			idx[i] = i
		}
		G := rapid.SampledFrom([]int{2, 3, 4, 8, 16, 32}).Draw(rt, "G")
		orders := make([][]int, G)
		for g := range orders {
			orders[g] = rapid.Permutation(idx).Draw(rt, "order")
		}
		// bystanders: goroutines that look at the balancer (read-only calls) while the clients are served, and
		// one that renews the ejection of backends that are ejected anyway. None of them changes the eligible set.
		var lookers [][]int
		for b, m := 0, rapid.SampledFrom([]int{0, 1, 1, 2}).Draw(rt, "lookers"); b < m; b++ {
			lookers = append(lookers, rapid.SliceOfN(rapid.SampledFrom(observerTable), 3, 10).Draw(rt, "looks"))
		}
		renew := len(p.ejected) > 0 && rapid.Bool().Draw(rt, "renew_ejections")
		locker := rapid.SampledFrom([]string{"", "", "", "", "writer", "reader"}).Draw(rt, "lock_taker")
		wasUnsorted := p.unsortedNow()
		listing := false
		for _, l := range lookers {
			listing = listing || hasListing(l)
		}
		p.adminMux()
		ejectedNow := map[string]bool{}
		for k := range p.ejected {
			ejectedNow[k] = true
		}
		var done int32
		var bwg sync.WaitGroup
		type obs struct {
			item int
			name string
		}
		results := make([][]obs, G+1)
		// one request of every client before anything runs side by side: the backend that client is on
		for i, it := range items {
			if i == 0 || items[i-1].client != it.client {
				name, _ := p.pick(it.spec, via)
				results[G] = append(results[G], obs{i, name})
			}
		}
		var ready, goFlag int32
		var wg sync.WaitGroup
		for _, l := range lookers {
			bwg.Add(1)
			go func(kinds []int) {
				defer bwg.Done()
				for atomic.LoadInt32(&goFlag) == 0 {
					runtime.Gosched()
				}
				for pass := 0; pass < 4 && atomic.LoadInt32(&done) == 0; pass++ {
					for _, k := range kinds {
						p.observe(k, ejectedNow)
						runtime.Gosched()
					}
				}
			}(l)
		}
		if renew {
			var victims []*loadbalancer.Backend
			for _, b := range p.lb.VerifBackends() {
				if ejectedNow[b.Name] {
					victims = append(victims, b)
				}
			}
			bwg.Add(1)
			go func() {
				defer bwg.Done()
				for atomic.LoadInt32(&goFlag) == 0 {
					runtime.Gosched()
				}
				for pass := 0; pass < 200 && atomic.LoadInt32(&done) == 0; pass++ {
					for _, b := range victims {
						p.lb.MarkBackendUnhealthy(b, time.Hour)
					}
					runtime.Gosched()
				}
			}()
		}
		for g := 0; g < G; g++ {
			wg.Add(1)
			go func(g int) {
				defer wg.Done()
				atomic.AddInt32(&ready, 1)
				for atomic.LoadInt32(&goFlag) == 0 {
					runtime.Gosched()
				}
				for round := 0; round < 3; round++ {
					for _, i := range orders[g] {
						name, _ := p.pick(items[i].spec, via)
						results[g] = append(results[g], obs{i, name})
					}
				}
			}(g)
		}
		for atomic.LoadInt32(&ready) < int32(G) {
			runtime.Gosched()
		}
		if locker != "" {
			all := p.lb.VerifBackends()
			bwg.Add(1)
			go func() {
				defer bwg.Done()
				for atomic.LoadInt32(&goFlag) == 0 {
					runtime.Gosched()
				}
				for pass := 0; pass < 200 && atomic.LoadInt32(&done) == 0; pass++ {
					for _, b := range all {
						if locker == "writer" {
							b.Mutex.Lock()
							confirmed := b.IsHealthy
							b.IsHealthy = confirmed
							b.Mutex.Unlock()
						} else {
							b.Mutex.RLock()
							_ = b.IsHealthy
							b.Mutex.RUnlock()
						}
						runtime.Gosched()
					}
				}
			}()
		}
		atomic.StoreInt32(&goFlag, 1)
		wg.Wait()
		atomic.StoreInt32(&done, 1)
		bwg.Wait()
		nEligible := len(p.names) - len(p.ejected)
		labels := []string{fmt.Sprintf("G%d", G), "via-" + via, strategy, "names-" + p.naming.Scheme}
		var looks [][]string
		for _, l := range lookers {
			looks = append(looks, observerList(l))
		}
		if len(lookers) > 0 {
			labels = append(labels, "observers-beside-clients")
		}
		if listing && wasUnsorted {
			labels = append(labels, "listing-beside-clients-of-unsorted-pool")
		}
		if renew {
			labels = append(labels, "ejections-renewed-beside-clients")
		}
		if locker != "" {
			labels = append(labels, "backend-locks-taken-beside-clients-as-"+locker)
		}
		beside := fmt.Sprintf("beside the clients: read-only admin/monitoring goroutines %v, ejections renewed: %v, a goroutine taking every backend's lock for a moment without changing its health: %q; members in order of arrival %v, ejected %v", looks, renew, locker, p.names, keysOf(p.ejected))
		sub.Case(map[string]any{"strategy": strategy, "n": len(p.names), "naming": p.naming, "ejected": keysOf(p.ejected), "clients": addrs, "requests": len(items), "G": G, "via": via, "lookers": looks, "renew": renew, "lock_taker": locker},
			nEligible >= 2, labels...)
		first := map[int]obs{}
		for _, o := range results[G] { // the sequential requests sent before the goroutines were released
			first[items[o.item].client] = o
		}
		for g := range results {
			for _, o := range results[g] {
				if v := p.valid(o.name); v != "" {
					rt.Fatalf("%s", note("affinity-concurrent", "%s n=%d G=%d via=%s: request %+v: %s (%s)", strategy, len(p.names), G, via, items[o.item].spec, v, beside))
				}
				c := items[o.item].client
				if f, ok := first[c]; !ok {
					first[c] = o
				} else if f.name != o.name {
					rt.Fatalf("%s", note("affinity-concurrent", "%s n=%d G=%d via=%s: client %q went to %s and to %s under concurrent traffic although the eligible set is unchanged (%s); the two requests: %+v, %+v",
						strategy, len(p.names), G, via, addrs[c], f.name, o.name, beside, items[f.item].spec, items[o.item].spec))
				}
			}
		}
	})
}
