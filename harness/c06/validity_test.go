package c06

import (
	"fmt"
	"testing"

	"github.com/0xReLogic/Helios/verifharness/lab"
	"pgregory.net/rapid"
)

// genRaw draws one carrier value with no regard for meaning: any class of address, lists with any
// separators and spacing (also leading commas, empty elements), raw field-value bytes, empty.
func genRaw(t *rapid.T, label string) (string, string) {
	switch k := rapid.IntRange(0, 9).Draw(t, label+"-shape"); {
	case k < 2:
		return "", "empty"
	case k < 5:
		a, c := genAddr(t, label)
		return a, c
	case k < 8:
		n := rapid.IntRange(1, 4).Draw(t, label+"-len")
		v := ""
		for i := 0; i < n; i++ {
			a := ""
			if rapid.IntRange(0, 5).Draw(t, label+"-hole") != 0 {
				a, _ = genAddr(t, label)
			}
			if i > 0 {
				v += rapid.SampledFrom([]string{", ", ",", " , ", " ,", ",\t", ",,"}).Draw(t, label+"-sep")
			}
			v += a
		}
		return fieldValue([]byte(v)), "list"
	default:
		return fieldValue(rapid.SliceOfN(rapid.Byte(), 0, 64).Draw(t, label+"-bytes")), "bytes"
	}
}

// TestC06Validity: for every address string in every carrier and every pool size the choice is a
// valid eligible backend (and the call returns: the jump loop can only fail by not terminating,
// which the no-progress watchdog reports), identical requests get identical choices.
func TestC06Validity(t *testing.T) {
	sub := lab.Sub("validity-arbitrary", "rapid: arbitrary (X-Forwarded-For lines, X-Real-IP, RemoteAddr) triples - addresses of every class, lists with any separators/spacing/empty "+
		"elements/leading commas, 0..64 raw field-value bytes, empty; RemoteAddr additionally any bytes (with/without port, brackets); pool 1..16 with a stable ejected subset, both "+
		"strategies, lb.NextBackend or lb.ServeHTTP(L1); oracle: a backend is chosen, it is a member, it is not ejected, the call returns (20 s no-progress watchdog), and "+
		"repeating the identical request gives the identical choice; non-trivial = >=2 eligible backends")
	sub.NontrivialFloor(0.7)
	sub.Floor("xff-list", 0.1)
	sub.Floor("xff-bytes", 0.05)
	sub.Floor("remote-raw-bytes", 0.1)
	sub.Floor("ejected-present", 0.15)
	lab.Check(t, sub, 4000, 150000, func(rt *rapid.T) {
		strategy := rapid.SampledFrom(hashStrategies).Draw(rt, "strategy")
		p := drawPool(rt, strategy, 16)
		defer p.lb.Stop()
		via := rapid.SampledFrom([]string{"next", "serve"}).Draw(rt, "via")
		s := reqSpec{Method: rapid.SampledFrom(methods).Draw(rt, "method"), Path: genPath(rt), Extra: genExtra(rt)}
		var labels []string
		xff, xc := genRaw(rt, "xff")
		if xc != "empty" || rapid.Bool().Draw(rt, "emptyLine") {
			s.XFF = []string{xff}
			if rapid.IntRange(0, 5).Draw(rt, "line2") == 0 {
				l2, _ := genRaw(rt, "xff2")
				s.XFF = append(s.XFF, l2)
			}
		}
		labels = append(labels, "xff-"+xc)
		xri, rc := genRaw(rt, "xri")
		s.XRI = xri
		labels = append(labels, "xri-"+rc)
		switch rapid.IntRange(0, 3).Draw(rt, "remoteShape") {
		case 0:
			s.Remote = string(rapid.SliceOfN(rapid.Byte(), 0, 64).Draw(rt, "remoteBytes"))
			labels = append(labels, "remote-raw-bytes")
		case 1:
			a, _ := genAddr(rt, "remote")
			s.Remote = a // no port
			labels = append(labels, "remote-no-port")
		default:
			s.Remote = genOtherRemote(rt)
			labels = append(labels, "remote-host-port")
		}
		if len(p.ejected) > 0 {
			labels = append(labels, "ejected-present")
		}
		labels = append(labels, strategy, "via-"+via)
		wd := lab.StartWatchdog(t.Name(), "validity-arbitrary", lab.NoProgress, func() any {
			return map[string]any{"strategy": strategy, "n": len(p.names), "request": s}
		})
		n1, _ := p.pick(s, via)
		n2, _ := p.pick(s, via)
		wd.Stop()
		sub.Case(map[string]any{"strategy": strategy, "n": len(p.names), "ejected": keysOf(p.ejected), "request": s, "via": via},
			len(p.names)-len(p.ejected) >= 2, labels...)
		if v := p.valid(n1); v != "" {
			rt.Fatalf("%s n=%d ejected=%v via=%s request %+v: %s", strategy, len(p.names), keysOf(p.ejected), via, s, v)
		}
		if n1 != n2 {
			rt.Fatalf("%s n=%d via=%s: the identical request %+v went to %s and then to %s", strategy, len(p.names), via, s, n1, n2)
		}
	})
}

var _ = fmt.Sprint
