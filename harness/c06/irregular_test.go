package c06

import (
	"fmt"
	"sort"
	"sync"
	"testing"

	"github.com/0xReLogic/Helios/verifharness/lab"
	"pgregory.net/rapid"
)

func keysOf(m map[string]bool) []string {
	out := []string{}
	for k, v := range m {
		if v {
			out = append(out, k)
		}
	}
	sort.Strings(out)
	return out
}

// Irregularly spaced X-Forwarded-For lists are kept apart from the must-hold affinity check, so that
// a finding here is specific. The documented attribution rule removes whitespace around the first
// list element, so "1.2.3.4 , 5.6.7.8" and "1.2.3.4, 5.6.7.8" are the same client 1.2.3.4.
const keyXFF = "xff-space-before-comma"

// reproXFF is the recorded reproduction of the open finding: same client, the list once written
// "a, b" and once "a , b"; pool of 8.
func reproXFF(strategy string) string {
	p, err := newPool(strategy, 8)
	if err != nil {
		return "harness: " + err.Error()
	}
	defer p.lb.Stop()
	a := reqSpec{XFF: []string{"1.2.3.4, 5.6.7.8"}, Remote: "192.0.2.1:4000"}
	b := reqSpec{XFF: []string{"1.2.3.4 , 5.6.7.8"}, Remote: "192.0.2.1:4000"}
	na, _ := p.pick(a, "serve")
	nb, _ := p.pick(b, "serve")
	if na != nb {
		return fmt.Sprintf("%s, 8 backends all healthy: X-Forwarded-For %q went to %s, X-Forwarded-For %q went to %s; both are client 1.2.3.4 by the documented rule (first element, trimmed)",
			strategy, a.XFF[0], na, b.XFF[0], nb)
	}
	return ""
}

var (
	xffOnce sync.Once
	xffExcl bool
)

func xffExcluded() bool {
	xffOnce.Do(func() {
		if !lab.Open(keyXFF) {
			return
		}
		for _, s := range hashStrategies {
			if v := reproXFF(s); v != "" {
				xffExcl = true
				if lab.Shard() == 0 {
					lab.KnownFinding(keyXFF, lab.OpenWhat(keyXFF)+" -- reproduction still fails: "+v)
				}
				return
			}
		}
	})
	return xffExcl
}

func TestC06AffinityIrregularXFF(t *testing.T) {
	sub := lab.Sub("affinity-xff-irregular-spacing", "rapid: as `affinity`, but the group mixes regular carriers of the client address with X-Forwarded-For lists that have "+
		"whitespace (SP / HTAB, 1..3) between the first element and the comma (\"1.2.3.4 , 5.6.7.8\"); the documented attribution rule trims the first element, so all are the "+
		"same client; oracle: same eligible backend; non-trivial = >=2 eligible backends. Kept separate so that a violation is specific to this shape")
	excl := xffExcluded()
	if !excl {
		sub.NontrivialFloor(0.6)
	}
	lab.Check(t, sub, 1500, 30000, func(rt *rapid.T) {
		strategy := rapid.SampledFrom(hashStrategies).Draw(rt, "strategy")
		p := drawPool(rt, strategy, 16)
		defer p.lb.Stop()
		via := rapid.SampledFrom([]string{"next", "serve"}).Draw(rt, "via")
		addr, class := genAddr(rt, "client")
		g := rapid.IntRange(2, 4).Draw(rt, "group")
		var group []reqSpec
		irregular := 0
		for i := 0; i < g; i++ {
			if i == 0 || rapid.Bool().Draw(rt, "irregular") {
				ws := rapid.SampledFrom([]string{" ", "\t", "  ", " \t ", "   "}).Draw(rt, "ws")
				o, _ := genAddr(rt, "later")
				after := rapid.SampledFrom([]string{" ", ""}).Draw(rt, "after")
				group = append(group, reqSpec{Method: rapid.SampledFrom(methods).Draw(rt, "method"), Path: genPath(rt),
					XFF: []string{addr + ws + "," + after + o}, Remote: genOtherRemote(rt)})
				irregular++
			} else {
				s, _ := genRequestFor(rt, addr)
				group = append(group, s)
			}
		}
		if irregular == g { // make sure the group also has a regular carrier to compare with
			s, _ := genRequestFor(rt, addr)
			group = append(group, s)
		}
		for _, s := range group {
			if got := attributed(s); got != addr {
				rt.Fatalf("harness: request %+v is attributed to %q, generator meant %q", s, got, addr)
			}
		}
		nEligible := len(p.names) - len(p.ejected)
		var picks []string
		viol := ""
		for i, s := range group {
			name, _ := p.pick(s, via)
			picks = append(picks, name)
			if v := p.valid(name); v != "" {
				// validity is not part of the open finding: always enforced
				sub.Case(map[string]any{"strategy": strategy, "n": len(p.names), "addr": addr, "group": group, "via": via}, nEligible >= 2, "addr-"+class)
				rt.Fatalf("%s n=%d via=%s: request %+v: %s", strategy, len(p.names), via, s, v)
			}
			if name != picks[0] && viol == "" {
				viol = fmt.Sprintf("requests #0 %+v and #%d %+v are both attributed to client %q (first X-Forwarded-For element, trimmed) but went to %s and %s (members %v, ejected %v)",
					group[0], i, s, addr, picks[0], name, p.names, keysOf(p.ejected))
			}
		}
		labels := []string{"addr-" + class, "via-" + via, strategy}
		if excl {
			sub.Excluded(keyXFF)
			labels = append(labels, "affinity-oracle-excluded-open-finding")
			if viol != "" {
				labels = append(labels, "would-violate")
			}
			sub.Case(map[string]any{"strategy": strategy, "n": len(p.names), "ejected": keysOf(p.ejected), "addr": addr, "group": group, "via": via}, false, labels...)
			return
		}
		sub.Case(map[string]any{"strategy": strategy, "n": len(p.names), "ejected": keysOf(p.ejected), "addr": addr, "group": group, "via": via}, nEligible >= 2, labels...)
		if viol != "" {
			rt.Fatalf("%s n=%d via=%s: %s", strategy, len(p.names), via, viol)
		}
	})
}
