package c06

import (
	"fmt"
	"net"
	"net/netip"
	"strings"

	"pgregory.net/rapid"
)

// fieldValue turns arbitrary bytes into something an HTTP/1.1 parser would hand to Helios as a
// header field value: no control bytes except inner HTAB, no leading/trailing SP/HTAB (the parser
// strips optional whitespace). Bytes >= 0x80 are legal (obs-text).
func fieldValue(b []byte) string {
	out := make([]byte, 0, len(b))
	for _, c := range b {
		if c == '\t' || (c >= 0x20 && c != 0x7f) {
			out = append(out, c)
		}
	}
	return strings.Trim(string(out), " \t")
}

func validFieldValue(s string) bool {
	for i := 0; i < len(s); i++ {
		if c := s[i]; c != '\t' && (c < 0x20 || c == 0x7f) {
			return false
		}
	}
	return s == strings.Trim(s, " \t")
}

// class thresholds used by genAddr: <35 ipv4, <55 ipv6, <63 ipv4-mapped, <80 junk, else bytes
var addrClassTable = []int{90, 40, 70, 0, 60, 0, 40, 70, 0, 90, 0, 0}

var junkAddrs = []string{"unknown", "localhost", "-", "_hidden", "999.999.999.999", "1.2.3", "1.2.3.4.5", "::::", "[::1]", "example.com",
	"a b", "null", "0", "%", `"quoted"`, "for=1.2.3.4;proto=https", "1.2.3.4:80", "[2001:db8::1]:443", "::ffff:1.2.3.4%eth0", "fe80::1%25en0",
	"010.001.002.003", "0x7f.1", "2130706433", "１.２.３.４", "1.2.3.4 x", "\xff\xfe", "http://1.2.3.4/"}

// genAddr draws a client address string and its class.
func genAddr(t *rapid.T, label string) (string, string) {
	// SampledFrom, not IntRange: rapid biases integer ranges towards their lower end
	switch k := rapid.SampledFrom(addrClassTable).Draw(t, label+"-class"); {
	case k < 35:
		o := rapid.SliceOfN(rapid.IntRange(0, 255), 4, 4).Draw(t, label+"-v4")
		if rapid.IntRange(0, 3).Draw(t, label+"-near") == 0 {
			o[0], o[1], o[2] = 10, 0, 0 // neighbours: many clients differing in the last octet only
		}
		return fmt.Sprintf("%d.%d.%d.%d", o[0], o[1], o[2], o[3]), "ipv4"
	case k < 55:
		var a [16]byte
		nz := rapid.IntRange(1, 16).Draw(t, label+"-nz")
		for i := 0; i < nz; i++ {
			a[rapid.IntRange(0, 15).Draw(t, label+"-pos")] = byte(rapid.IntRange(0, 255).Draw(t, label+"-b"))
		}
		a[0] = 0x20 // never an IPv4-mapped or unspecified address in this class
		s := netip.AddrFrom16(a).String()
		switch rapid.IntRange(0, 3).Draw(t, label+"-form") {
		case 0:
			s = strings.ToUpper(s)
		case 1:
			s = netip.AddrFrom16(a).StringExpanded()
		case 2:
			s += "%eth0"
		}
		return s, "ipv6"
	case k < 63:
		o := rapid.SliceOfN(rapid.IntRange(0, 255), 4, 4).Draw(t, label+"-v4")
		return fmt.Sprintf("::ffff:%d.%d.%d.%d", o[0], o[1], o[2], o[3]), "ipv4-mapped"
	case k < 80:
		if rapid.Bool().Draw(t, label+"-fixed") {
			return cleanAddr(rapid.SampledFrom(junkAddrs).Draw(t, label+"-junk")), "junk"
		}
		return cleanAddr(rapid.StringMatching(`[a-zA-Z0-9_.:\-\[\]%/ ;=]{1,24}`).Draw(t, label+"-junk")), "junk"
	default:
		return cleanAddr(fieldValue(rapid.SliceOfN(rapid.Byte(), 1, 64).Draw(t, label+"-bytes"))), "bytes"
	}
}

// cleanAddr makes s usable as "the attributed address" through every source: no comma (a comma
// would make it a list), no surrounding whitespace in the sense of the attribution rule's
// trimming, not empty.
func cleanAddr(s string) string {
	s = strings.ReplaceAll(s, ",", "")
	for {
		t := strings.Trim(strings.TrimSpace(s), " \t")
		if t == s {
			break
		}
		s = t
	}
	if s == "" {
		return "x"
	}
	return s
}

// remoteFor returns RemoteAddr strings whose host part (net.SplitHostPort, else the whole string)
// is exactly addr, for the given port; nil if addr cannot be carried by a RemoteAddr.
func remoteFor(addr string, port int) []string {
	var out []string
	for _, c := range []string{fmt.Sprintf("%s:%d", addr, port), fmt.Sprintf("[%s]:%d", addr, port), addr} {
		if remoteHost(c) == addr {
			out = append(out, c)
		}
	}
	return out
}

var (
	methods   = []string{"GET", "POST", "PUT", "DELETE", "HEAD", "PATCH", "OPTIONS"}
	segs      = []string{"", "api", "v1", "users", "42", "static", "a%20b", "index.html", "..", "%2e%2e", "login"}
	extraKeys = []string{"User-Agent", "Accept", "Cookie", "X-Request-Id", "Authorization", "Forwarded", "X-Forwarded-Host", "X-Forwarded-Proto",
		"True-Client-Ip", "Cf-Connecting-Ip", "X-Client-Ip", "Via", "X-Forwarded-Port"}
	extraVals = []string{"curl/8.0", "*/*", "sid=1; t=2", "for=9.9.9.9", "9.9.9.9", "https", "1.1 edge", "Bearer x", "8443", "203.0.113.7"}
)

func genPath(t *rapid.T) string {
	n := rapid.IntRange(0, 4).Draw(t, "segs")
	p := ""
	for i := 0; i < n; i++ {
		p += "/" + rapid.SampledFrom(segs).Draw(t, "seg")
	}
	if p == "" {
		p = "/"
	}
	if rapid.IntRange(0, 3).Draw(t, "q") == 0 {
		p += "?" + rapid.SampledFrom([]string{"a=1", "ip=8.8.8.8", "x=%2C", "q"}).Draw(t, "query")
	}
	return p
}

func genExtra(t *rapid.T) map[string]string {
	n := rapid.IntRange(0, 3).Draw(t, "extras")
	if n == 0 {
		return nil
	}
	m := map[string]string{}
	for i := 0; i < n; i++ {
		m[rapid.SampledFrom(extraKeys).Draw(t, "ek")] = rapid.SampledFrom(extraVals).Draw(t, "ev")
	}
	return m
}

func genPort(t *rapid.T) int {
	return rapid.SampledFrom([]int{1, 80, 1024, 4000, 4001, 32768, 49152, 65535}).Draw(t, "port")
}

// genOtherRemote draws a RemoteAddr of "somebody else" (proxy or other client).
func genOtherRemote(t *rapid.T) string {
	a, _ := genAddr(t, "peer")
	if r := remoteFor(a, genPort(t)); len(r) > 0 {
		return r[0]
	}
	return net.JoinHostPort("192.0.2.1", "4000")
}

// genRequestFor draws a request that the attribution rule attributes to addr, and the labels of the
// source used. Everything else (method, path, port, other headers, later list members, lower-priority
// address carriers) is drawn freely.
func genRequestFor(t *rapid.T, addr string) (reqSpec, []string) {
	s := reqSpec{Method: rapid.SampledFrom(methods).Draw(t, "method"), Path: genPath(t), Extra: genExtra(t)}
	var labels []string
	src := rapid.IntRange(0, 3).Draw(t, "source")
	rem := remoteFor(addr, genPort(t))
	if src == 3 && len(rem) == 0 {
		src = rapid.IntRange(0, 2).Draw(t, "source2")
	}
	switch src {
	case 0: // single-element X-Forwarded-For
		s.XFF = []string{addr}
		labels = append(labels, "src-xff-single")
	case 1: // list, separator directly after the first element ("a, b" nginx style or "a,b")
		sep := rapid.SampledFrom([]string{", ", ","}).Draw(t, "sep")
		v := addr
		for i, m := 0, rapid.IntRange(1, 3).Draw(t, "later"); i < m; i++ {
			o, _ := genAddr(t, "later")
			v += sep + o
		}
		s.XFF = []string{v}
		labels = append(labels, "src-xff-list")
	case 2:
		s.XRI = addr
		labels = append(labels, "src-x-real-ip")
		if rapid.IntRange(0, 3).Draw(t, "emptyXFF") == 0 {
			s.XFF = []string{""} // an empty X-Forwarded-For line does not count
			labels = append(labels, "empty-xff-line")
		}
	case 3:
		s.Remote = rapid.SampledFrom(rem).Draw(t, "remote")
		labels = append(labels, "src-remoteaddr")
	}
	if src <= 1 {
		if rapid.Bool().Draw(t, "xri-too") {
			s.XRI, _ = genAddr(t, "lower-xri") // lower priority carrier, irrelevant
			labels = append(labels, "lower-priority-x-real-ip")
		}
		if rapid.IntRange(0, 4).Draw(t, "second-line") == 0 {
			o, _ := genAddr(t, "line2")
			s.XFF = append(s.XFF, o)
			labels = append(labels, "second-xff-line")
		}
	}
	if src != 3 {
		s.Remote = genOtherRemote(t)
	}
	return s, labels
}

// genNaming draws how the operator named the backends (see naming).
func genNaming(t *rapid.T) naming {
	nm := naming{Scheme: rapid.SampledFrom(namingSchemes).Draw(t, "naming")}
	if nm.Scheme == "drawn" {
		nm.Words = rapid.Permutation(nameVocabulary).Draw(t, "name_order")
	}
	return nm
}

// genObservers draws 0..2 read-only admin / monitoring calls (kinds of pool.observe).
func genObservers(t *rapid.T) []int {
	var out []int
	// SampledFrom, not IntRange: rapid biases integer ranges towards their lower end
	for i, m := 0, rapid.SampledFrom([]int{0, 0, 1, 1, 2}).Draw(t, "observers"); i < m; i++ {
		out = append(out, rapid.SampledFrom(observerTable).Draw(t, "observer"))
	}
	return out
}

func hasListing(kinds []int) bool {
	for _, k := range kinds {
		if isListing(k) {
			return true
		}
	}
	return false
}

func observerList(kinds []int) []string {
	var out []string
	for _, k := range kinds {
		out = append(out, observerNames[k])
	}
	return out
}
