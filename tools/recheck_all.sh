#!/bin/bash
# usage: tools/recheck_all.sh [seed-name-glob]  -- re-runs every stored seeded change against the current checks (quick tier).
# Seeds that no longer apply to /repo HEAD are evaluated at the commit recorded in meta.json (applies_to_commit):
# unpatched base and patched base; "caught" then means base exit=0 and patched exit=1.
cd /verif
for d in seeded/${1:-*}/; do
  n=$(basename $d); id=${n%%-*}
  base=$(python3 -c "import json;print(json.load(open('$d/meta.json')).get('applies_to_commit') or '')")
  r=$(tools/mutant.sh /verif/$d/patch.diff $id 2>&1 | tail -1)
  if echo "$r" | grep -q "does not apply" && [ -n "$base" ]; then
    touch /tmp/none
    u=$(BASE=$base tools/mutant.sh /tmp/none $id 2>&1 | tail -1)
    p=$(BASE=$base tools/mutant.sh /verif/$d/patch.diff $id 2>&1 | tail -1)
    r="at base $base: unpatched [$u] patched [$p]"
  fi
  echo "$n: $r"
  python3 - "$n" "$r" <<'PY'
import json,sys,time
p='/verif/seeded/%s/meta.json'%sys.argv[1]
m=json.load(open(p)); m['check_results_final']=sys.argv[2]; json.dump(m,open(p,'w'),indent=1)
PY
done
