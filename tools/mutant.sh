#!/bin/bash
# usage: tools/mutant.sh <patch.diff> <ID> [<ID>...]   — runs the quick checks against a scratch copy of /repo with the patch applied
# env BASE=<commit> evaluates against an older commit (for seeds that no longer apply to HEAD); patch "none" = unpatched.
# Nothing in /repo or /verif is modified. Prints one line per check: "<ID> exit=<rc>" (1 = caught).
set -u
PATCH=$(readlink -f "$1"); shift
W=$(mktemp -d /tmp/mut-XXXXXX)
trap 'git -C /repo worktree remove --force "$W/repo" >/dev/null 2>&1; rm -rf "$W"' EXIT
git -C /repo worktree add -q --detach "$W/repo" ${BASE:-HEAD} || exit 3
if [ "$(basename "$PATCH")" != none ] && ! git -C "$W/repo" apply "$PATCH" 2>/dev/null; then
  # later fix: commits may have moved the lines; the patch records its base blobs, so a 3-way merge often still places it
  if ! git -C "$W/repo" apply --3way "$PATCH" >/dev/null 2>&1 || git -C "$W/repo" diff --name-only --diff-filter=U | grep -q .; then echo "patch does not apply"; exit 3; fi
  echo "(applied with 3-way merge)"
fi
(cd "$W/repo" && GOFLAGS=-mod=mod go build ./... ) || { echo "mutant does not compile"; exit 3; }
mkdir -p "$W/verif"
cp -r /verif/check /verif/checks.d /verif/known_findings.json /verif/harness "$W/verif/"
sed -i "s#=> /repo#=> $W/repo#" "$W/verif/harness/go.mod"
for ID in "$@"; do
  out=$(cd "$W/verif" && VERIF_REPO="$W/repo" VERIF_KNOWN="$W/verif/known_findings.json" ./check "$ID" ${TIER:-quick} 2>&1); rc=$?
  echo "$ID exit=$rc $(echo "$out" | grep -m1 -o 'VIOLATION property=[A-Z0-9]*' )"
  if [ -n "${VERBOSE:-}" ]; then echo "$out" | grep -v draw | grep -m3 "failed after\|VERIF-VIOLATION\|violation in" | cut -c1-600; fi
done
