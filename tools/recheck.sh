#!/bin/bash
# usage: tools/recheck.sh <seed-name> <ID>   -- re-runs the quick check against a stored seeded change and records the result in its meta.json
set -u
NAME=$1; ID=$2
r=$(/verif/tools/mutant.sh /verif/seeded/$NAME/patch.diff $ID 2>&1 | tail -1)
echo "$NAME: $r"
python3 - "$NAME" "$r" <<'PY'
import json,sys
p='/verif/seeded/%s/meta.json'%sys.argv[1]
m=json.load(open(p)); m['check_results_after_strengthening']=sys.argv[2]; json.dump(m,open(p,'w'),indent=1)
PY
