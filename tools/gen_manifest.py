#!/usr/bin/env python3
"""Regenerates /verif/MANIFEST.json from checks.d/<ID>.json (single source of truth for the driver too)."""
import json, os, subprocess
ROOT = os.path.dirname(os.path.dirname(os.path.abspath(__file__)))
checks = {f[:-5]: json.load(open(os.path.join(ROOT, "checks.d", f))) for f in sorted(os.listdir(os.path.join(ROOT, "checks.d"))) if f.endswith(".json")}
claimed = set(open(os.path.join(ROOT, "claimed.txt")).read().split())
checks = {k: v for k, v in checks.items() if k in claimed}  # only checks I have run and reviewed are claimed
props = [json.loads(l) for l in open(os.path.join(ROOT, "properties.jsonl"))]
na = json.load(open(os.path.join(ROOT, "not_applicable.json"))) if os.path.exists(os.path.join(ROOT, "not_applicable.json")) else {}
hooks_commits = subprocess.run(["git", "-C", "/repo", "log", "--format=%h", "--grep=^verif hooks"], capture_output=True, text=True).stdout.split()
m = {
    "version": 1,
    "setup_cmd": "./check --setup",
    "hooks": {
        "guard": "verif",
        "enable": "go test -tags verif (the harness module replaces github.com/0xReLogic/Helios with /repo, so every check compiles /repo's current working tree with the tag on)",
        "baseline_off_cmd": "cd /repo && GOFLAGS=-mod=mod go test -json -vet=off -count=1 -timeout 25m ./...",
        "source_commits": hooks_commits,
        "add_only": True,
    },
    "engines": [
        {"name": "rapid", "path": "harness/", "serves_properties": sorted(checks.keys()),
         "kind_free_text": "pgregory.net/rapid v1.3.0 property-based testing (generators, state-machine histories, shrinking, fail files); testing/synctest virtual time via rapid.SyncTest on go1.26.8"},
        {"name": "driver", "path": "check", "serves_properties": sorted(checks.keys()),
         "kind_free_text": "python3 driver: builds the property's test binary from /repo's working tree, shards it over processes, merges reports into evidence/<id>.json, maps results to exit 0/1/2"},
    ],
    "checks": [],
    "not_applicable": [],
    "notes": "Technique family: property-based testing and fuzzing. Exit 2 = inconclusive (never a verdict). known_findings.json lists fixed/open genuine defects. See DESIGN.md.",
}
for p in props:
    pid = p["id"]
    if pid in checks:
        c = checks[pid]
        m["checks"].append({
            "property_id": pid,
            "quick_cmd": "./check %s quick" % pid,
            "thorough_cmd": "./check %s thorough" % pid,
            "evidence_file": "/verif/evidence/%s.json" % pid,
            "replay_cmd_template": "./check %s --replay {path}" % pid,
            "engine": "rapid",
            "level_claimed": {"category": c["level"], "text": c["level_text"], "design_ref": "DESIGN.md §3 " + pid},
            "level_note": c["level_note"],
            "technique": c["technique"],
        })
    else:
        m["not_applicable"].append({"property_id": pid, "reason": na.get(pid, "check not built yet in this session (planned in DESIGN.md §3 %s); not claimed until it exists" % pid)})
json.dump(m, open(os.path.join(ROOT, "MANIFEST.json"), "w"), indent=1)
print("MANIFEST: %d checks, %d not_applicable" % (len(m["checks"]), len(m["not_applicable"])))
