#!/usr/bin/env python3
"""Summarise distinct data races (pair of top Helios frames) in replays/<ID>/shard-*.log"""
import sys, glob, re
seen = {}
for f in glob.glob('/verif/replays/%s/shard-*.log' % sys.argv[1]):
    out = open(f, errors='replace').read()
    for r in out.split('WARNING: DATA RACE')[1:]:
        r = r.split('==================')[0]
        parts = re.split(r'\n(?=Previous |Goroutine )', r)
        tops = []
        for p in parts[:2]:
            fr = [l.strip().split('(')[0] + '()' for l in p.split('\n') if 'Helios/internal' in l or 'Helios/cmd' in l]
            ln = [l.strip() for l in p.split('\n') if '/repo/' in l]
            tops.append((fr[0] if fr else '?') + ' ' + (ln[0].split(' ')[0] if ln else ''))
        key = tuple(sorted(tops))
        seen[key] = seen.get(key, 0) + 1
for k, v in sorted(seen.items(), key=lambda x: -x[1]):
    print(v, ' <-> '.join(k))
