#!/bin/bash
# usage: tools/seed_eval.sh <seed-out-dir>/changeN <PROP-ID> <seed-name> [extra check IDs...]
# Verifies a seeded change independently (clean: demo passes; patched: demo fails, build + existing suite pass),
# then runs the property's quick check against it. Stores everything under /verif/seeded/<seed-name>/.
set -u
SRC=$(readlink -f "$1"); PROP=$2; NAME=$3; shift 3
export GOFLAGS=-mod=mod GOPROXY=off GOSUMDB=off GOTOOLCHAIN=local
DST=/verif/seeded/$NAME; mkdir -p "$DST"; cp "$SRC"/patch.diff "$DST"/; cp "$SRC"/* "$DST"/ 2>/dev/null
W=$(mktemp -d /tmp/seedeval-XXXXXX)
trap 'git -C /repo worktree remove --force "$W/repo" >/dev/null 2>&1; rm -rf "$W"' EXIT
git -C /repo worktree add -q --detach "$W/repo" HEAD || exit 3
DEMO=$(ls "$SRC"/*_test.go 2>/dev/null | head -1)
PKG=""
if [ -f "$SRC/run.txt" ]; then PKG=$(grep -m1 -o 'cp [^ ]*_test\.go [^ ]*' "$SRC/run.txt" | awk '{print $3}' | xargs -r dirname | sed "s#^/tmp/seed[0-9]*-[A-Z0-9]*/##; s#^\./##"); fi
if [ -n "$PKG" ] && [ ! -d "$W/repo/$PKG" ]; then PKG=""; fi
if [ -z "$PKG" ] && [ -n "$DEMO" ]; then P=$(grep -m1 '^package ' "$DEMO" | awk '{print $2}' | sed 's/_test$//'); PKG=$(cd "$W/repo" && grep -rl --include=*.go "^package $P\$" internal cmd | head -1 | xargs dirname); fi
res_clean=na; res_patched=na; suite=na; applies=yes
if [ -n "$PKG" ]; then
  cp "$DEMO" "$W/repo/$PKG/zz_seed_demo_test.go"
  (cd "$W/repo" && go test -count=1 -run 'TestSeed' ./$PKG/ >"$W/clean.log" 2>&1) && res_clean=pass || res_clean=fail
  rm "$W/repo/$PKG/zz_seed_demo_test.go"
fi
if ! git -C "$W/repo" apply "$SRC/patch.diff" 2>"$W/apply.log"; then applies=no; fi
if [ $applies = yes ]; then
  (cd "$W/repo" && go build ./... && go test -count=1 ./... >"$W/suite.log" 2>&1) && suite=pass || suite=fail
  if [ -n "$PKG" ]; then
    cp "$DEMO" "$W/repo/$PKG/zz_seed_demo_test.go"
    (cd "$W/repo" && go test -count=1 -run 'TestSeed' ./$PKG/ >"$W/patched.log" 2>&1) && res_patched=pass || res_patched=fail
    rm "$W/repo/$PKG/zz_seed_demo_test.go"
  fi
fi
CHECKS=""
for ID in $PROP "$@"; do
  r=$(/verif/tools/mutant.sh "$SRC/patch.diff" $ID 2>&1 | tail -1)
  CHECKS="$CHECKS $r;"
done
echo "$NAME: applies=$applies demo_clean=$res_clean demo_patched=$res_patched suite_patched=$suite | checks:$CHECKS"
python3 - "$DST" "$PROP" "$NAME" "$applies" "$res_clean" "$res_patched" "$suite" "$CHECKS" <<'PY'
import json,sys,os
dst,prop,name,applies,clean,patched,suite,checks=sys.argv[1:9]
notes=open(os.path.join(dst,'notes.md')).read() if os.path.exists(os.path.join(dst,'notes.md')) else ''
meta={"seed":name,"breaks_property":prop,"source":"independent sub-agent given only the property text and a scratch worktree",
 "needs_to_manifest":notes[:1500],
 "verified_by_me":{"patch_applies_to_HEAD":applies,"demo_on_clean_tree":clean,"demo_with_patch":patched,"existing_suite_with_patch":suite},
 "check_results_quick":checks.strip(),
 "what_i_ran":"tools/seed_eval.sh: scratch worktree of /repo HEAD; demo copied into its package (go test -run TestSeed); git apply patch; go build ./... && go test ./...; demo again; tools/mutant.sh patch <ID> (quick check against the patched scratch tree)"}
json.dump(meta,open(os.path.join(dst,'meta.json'),'w'),indent=1)
PY
