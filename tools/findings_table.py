#!/usr/bin/env python3
"""Regenerates the findings table of DESIGN.md (between the FINDINGS-TABLE markers) from known_findings.json."""
import json, re
d = json.load(open('/verif/known_findings.json'))['findings']
rows = ['| Property | key | status | commit | what |', '|---|---|---|---|---|']
for f in sorted(d, key=lambda f: (f['property'], f['status'] != 'open')):
    what = f.get('what', '').replace('|', '/').replace('\n', ' ')
    if len(what) > 230:
        what = what[:227] + '...'
    rows.append('| %s | `%s` | %s | %s | %s |' % (f['property'], f['key'], f['status'], f.get('commit', '—'), what))
n_fixed = sum(1 for f in d if f['status'] == 'fixed'); n_open = len(d) - n_fixed
rows.append('')
rows.append('%d entries: %d fixed (in %d `fix:` commits), %d open.' % (len(d), n_fixed, len({f.get("commit") for f in d if f["status"] == "fixed"}), n_open))
p = '/verif/DESIGN.md'
s = open(p).read()
s2 = re.sub(r'(<!-- FINDINGS-TABLE-BEGIN -->\n).*?(<!-- FINDINGS-TABLE-END -->)', lambda m: m.group(1) + '\n'.join(rows) + '\n' + m.group(2), s, flags=re.S)
open(p, 'w').write(s2)
print('\n'.join(rows[-3:]))
